#!/usr/bin/env python3
"""Determinism self-test: many VERIF_SEED values, each executed twice in separate processes, at 1
and at 16 worker threads; the per-run event-log hashes must be identical line by line.
A mismatch is a harness error (exit 2), never a VIOLATION."""
import hashlib
import os
import subprocess
import sys
from concurrent.futures import ThreadPoolExecutor

BIN = os.path.join(os.path.dirname(os.path.abspath(__file__)), "sim", "target", "release", "sim")
N_SEEDS = int(sys.argv[1]) if len(sys.argv) > 1 else 48
RUNS = int(sys.argv[2]) if len(sys.argv) > 2 else 20000


def one(seed, threads, frm):
    cmd = [BIN, "hashes", "--seed", str(seed), "--runs", str(RUNS), "--threads", str(threads), "--full"]
    if frm is not None:
        cmd += ["--from", str(frm)]
    out = subprocess.run(cmd, stdout=subprocess.PIPE, check=True).stdout
    return hashlib.sha256(out).hexdigest(), out.count(b"\n")


def job(seed):
    res = []
    for frm in (None, 0):
        a = one(seed, 1, frm)
        b = one(seed, 16, frm)
        c = one(seed, 5, frm)
        res.append((seed, frm, a, b, c))
    return res


bad = 0
lines = 0
with ThreadPoolExecutor(max_workers=8) as ex:
    for res in ex.map(job, [1000003 * i + 17 for i in range(N_SEEDS)]):
        for seed, frm, a, b, c in res:
            lines += a[1]
            if not (a == b == c):
                bad += 1
                print("MISMATCH seed=%d from=%s: %s / %s / %s" % (seed, frm, a, b, c))
print("determinism: %d seeds x 2 ranges x 3 worker counts (1, 16, 5), %d runs each, separate processes; %d hash lines compared; mismatches=%d"
      % (N_SEEDS, RUNS, lines, bad))
sys.exit(2 if bad else 0)
