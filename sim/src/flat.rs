//! The read side of a medium without structure (bincode / postcard-like): the stored record is the
//! flat sequence of its leaves in the order they were written. A struct is its fields one after
//! the other, in the order of the `fields` list the reader passes; nothing marks where a record
//! starts or ends, and there are no names. The reader gets exactly as many elements as it asks for.
//!
//! What this medium can show and the structured positional medium cannot: a reader that takes the
//! components in another order than the writer put them gets `Ok` with the numbers in the wrong
//! places, because every component is "just the next number".
//!
//! Leaves keep their own number type (as in the structured media): a reader asking for an `f32`
//! where an `f64` was stored is handed the `f64`.

use crate::medium::*;
use crate::node::{wide, Kind, Node};
use crate::oracle::{panic_msg, stale_value, ReadOutcome};
use crate::rng::Fnv;
use crate::subject::Subject;
use serde::de::{self, DeserializeSeed, Visitor};
use std::cell::Cell;
use std::panic::{catch_unwind, AssertUnwindSafe};

const STEP_CAP: u32 = 8192;

struct FlatEnv<'a> {
    leaves: &'a [(Kind, u64)],
    pos: Cell<usize>,
    steps: Cell<u32>,
    cfg: Medium,
}

#[derive(Clone, Copy)]
struct FlatDe<'a> {
    env: &'a FlatEnv<'a>,
}

impl<'a> FlatDe<'a> {
    fn step(&self) -> Result<(), SimError> {
        let s = self.env.steps.get() + 1;
        self.env.steps.set(s);
        if s > STEP_CAP {
            return Err(SimError::Medium("step budget exhausted"));
        }
        Ok(())
    }
    fn num<'de, V: Visitor<'de>>(self, v: V) -> Result<V::Value, SimError> {
        self.step()?;
        let p = self.env.pos.get();
        let (kind, bits) = *self.env.leaves.get(p).ok_or(SimError::Medium("unexpected end of input"))?;
        self.env.pos.set(p + 1);
        match self.env.cfg.nums {
            NumDelivery::Typed => match kind {
                Kind::F32 => v.visit_f32(f32::from_bits(bits as u32)),
                Kind::F64 => v.visit_f64(f64::from_bits(bits)),
                Kind::I8 => v.visit_i8(bits as i64 as i8),
                Kind::I16 => v.visit_i16(bits as i64 as i16),
                Kind::I32 => v.visit_i32(bits as i64 as i32),
                Kind::I64 => v.visit_i64(bits as i64),
                Kind::U8 => v.visit_u8(bits as u8),
                Kind::U16 => v.visit_u16(bits as u16),
                Kind::U32 => v.visit_u32(bits as u32),
                Kind::U64 => v.visit_u64(bits),
                Kind::Bool => v.visit_bool(bits != 0),
                Kind::I128 => v.visit_i128(wide::decode(bits)),
                Kind::U128 => v.visit_u128(wide::decode(bits) as u128),
            },
            NumDelivery::Widened => match kind {
                Kind::F32 => v.visit_f64(f32::from_bits(bits as u32) as f64),
                Kind::F64 => v.visit_f64(f64::from_bits(bits)),
                Kind::I8 | Kind::I16 | Kind::I32 | Kind::I64 => v.visit_i64(bits as i64),
                Kind::U8 | Kind::U16 | Kind::U32 | Kind::U64 => v.visit_u64(bits),
                Kind::Bool => v.visit_bool(bits != 0),
                Kind::I128 => {
                    let x = wide::decode(bits);
                    match i64::try_from(x) {
                        Ok(n) => v.visit_i64(n),
                        Err(_) => v.visit_i128(x),
                    }
                }
                Kind::U128 => {
                    let x = wide::decode(bits) as u128;
                    match u64::try_from(x) {
                        Ok(n) => v.visit_u64(n),
                        Err(_) => v.visit_u128(x),
                    }
                }
            },
        }
    }
    fn elements<'de, V: Visitor<'de>>(self, n: usize, v: V) -> Result<V::Value, SimError> {
        self.step()?;
        v.visit_seq(FlatSeq { de: self, remaining: n })
    }
    fn unsupported<T>(self) -> Result<T, SimError> {
        Err(SimError::Medium("a format without structure cannot tell what comes next"))
    }
}

macro_rules! flat_num {
    ($($m:ident)*) => {
        $(fn $m<V: Visitor<'de>>(self, v: V) -> Result<V::Value, SimError> { self.num(v) })*
    };
}
macro_rules! flat_unsupported {
    ($($m:ident)*) => {
        $(fn $m<V: Visitor<'de>>(self, _v: V) -> Result<V::Value, SimError> { self.unsupported() })*
    };
}

impl<'de, 'a> de::Deserializer<'de> for FlatDe<'a> {
    type Error = SimError;

    flat_num! {
        deserialize_bool deserialize_i8 deserialize_i16 deserialize_i32 deserialize_i64 deserialize_i128
        deserialize_u8 deserialize_u16 deserialize_u32 deserialize_u64 deserialize_u128
        deserialize_f32 deserialize_f64
    }
    flat_unsupported! {
        deserialize_any deserialize_char deserialize_str deserialize_string deserialize_bytes
        deserialize_byte_buf deserialize_option deserialize_seq deserialize_map
        deserialize_identifier deserialize_ignored_any
    }

    fn deserialize_unit<V: Visitor<'de>>(self, v: V) -> Result<V::Value, SimError> {
        self.step()?;
        v.visit_unit()
    }
    fn deserialize_unit_struct<V: Visitor<'de>>(self, _n: &'static str, v: V) -> Result<V::Value, SimError> {
        self.step()?;
        v.visit_unit()
    }
    fn deserialize_newtype_struct<V: Visitor<'de>>(self, _n: &'static str, v: V) -> Result<V::Value, SimError> {
        self.step()?;
        v.visit_newtype_struct(self)
    }
    fn deserialize_tuple<V: Visitor<'de>>(self, len: usize, v: V) -> Result<V::Value, SimError> {
        self.elements(len, v)
    }
    fn deserialize_tuple_struct<V: Visitor<'de>>(self, _n: &'static str, len: usize, v: V) -> Result<V::Value, SimError> {
        self.elements(len, v)
    }
    fn deserialize_struct<V: Visitor<'de>>(self, _n: &'static str, fields: &'static [&'static str], v: V) -> Result<V::Value, SimError> {
        self.elements(fields.len(), v)
    }
    fn deserialize_enum<V: Visitor<'de>>(self, _n: &'static str, _variants: &'static [&'static str], _v: V) -> Result<V::Value, SimError> {
        self.unsupported()
    }
    fn is_human_readable(&self) -> bool {
        self.env.cfg.human_readable
    }
}

struct FlatSeq<'a> {
    de: FlatDe<'a>,
    remaining: usize,
}

impl<'de, 'a> de::SeqAccess<'de> for FlatSeq<'a> {
    type Error = SimError;
    fn next_element_seed<T: DeserializeSeed<'de>>(&mut self, seed: T) -> Result<Option<T::Value>, SimError> {
        self.de.step()?;
        if self.remaining == 0 {
            return Ok(None);
        }
        self.remaining -= 1;
        seed.deserialize(self.de).map(Some)
    }
    fn size_hint(&self) -> Option<usize> {
        match self.de.env.cfg.size_hint {
            SizeHint::None => None,
            _ => Some(self.remaining),
        }
    }
}

/// Fault-free read of the stored record through the structureless medium. The plan's read faults
/// are about records and keys, which this medium does not have: none is applied.
pub fn read_flat<T: Subject>(medium: Medium, root: &Node, n_faults: usize, in_place: bool) -> ReadOutcome {
    let mut leaves = Vec::new();
    root.leaves(&mut leaves);
    let env = FlatEnv { leaves: &leaves, pos: Cell::new(0), steps: Cell::new(0), cfg: medium };
    let r = catch_unwind(AssertUnwindSafe(|| {
        let de = FlatDe { env: &env };
        if in_place {
            let mut place: T = stale_value::<T>();
            T::deserialize_in_place(de, &mut place).map(|()| place)
        } else {
            T::deserialize(de)
        }
    }));
    let result = match r {
        Ok(Ok(v)) => {
            let mut got = Vec::new();
            v.read(&mut got);
            Ok(got)
        }
        Ok(Err(e)) => Err(e.to_string()),
        Err(p) => Err(format!("PANIC: {}", panic_msg(p))),
    };
    let mut log = Fnv::default();
    log.u64(0x464c_4154); // "FLAT"
    log.u64(env.pos.get() as u64);
    log.u64(env.steps.get() as u64);
    ReadOutcome {
        result,
        fired: Vec::new(),
        applied: vec![false; n_faults],
        steps: env.steps.get(),
        log: log.finish(),
        opened: Vec::new(),
        trace: None,
        runaway: env.steps.get() > STEP_CAP,
    }
}
