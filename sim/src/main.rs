//! Deterministic simulation with fault injection for cgmath's serde seam (property C20).
//! See /verif/DESIGN.md §2.

mod batch;
mod bytes;
#[cfg(feature = "exotic")]
mod exotic;
#[cfg(not(feature = "exotic"))]
mod exotic {
    //! stand-in when the exotic lane is compiled out (see Cargo.toml)
    #[derive(Clone, Debug)]
    pub struct ExoticFailure {
        pub case: String,
        pub scenario: String,
        pub assert_id: &'static str,
        pub observed: String,
    }
    #[derive(Default)]
    pub struct ExoticReport {
        pub cases: u64,
        pub evaluations: u64,
        pub failures: Vec<ExoticFailure>,
        pub case_names: Vec<String>,
    }
    pub fn run_all(_only: Option<&str>) -> ExoticReport {
        ExoticReport::default()
    }
}
mod flat;
mod gen;
mod medium;
mod node;
mod oracle;
mod registry;
mod rng;
mod source;
mod store;
mod subject;

use std::process::exit;

fn usage() -> ! {
    eprintln!(
        "usage:\n  sim batch --tier quick|thorough [--seed N] [--runs N] [--threads N] [--evidence FILE] [--replay-dir DIR] [--known FILE]\n  sim replay FILE\n  sim hashes [--seed N] [--runs N] [--threads N] [--from I]\n  sim show --seed N --run I\n  sim list"
    );
    exit(2)
}

fn main() {
    let args: Vec<String> = std::env::args().skip(1).collect();
    if args.is_empty() {
        usage();
    }
    let code = match args[0].as_str() {
        "batch" => batch::cmd_batch(&args[1..]),
        "replay" => batch::cmd_replay(&args[1..]),
        "hashes" => batch::cmd_hashes(&args[1..]),
        "show" => batch::cmd_show(&args[1..]),
        "list" => batch::cmd_list(),
        _ => usage(),
    };
    exit(code)
}
