//! The only source of randomness in the simulator.
//!
//! One integer (VERIF_SEED) and one run index decide everything: run `i` of a batch uses a
//! xoshiro256** stream seeded through splitmix64 from `(seed, i)`. Nothing else in the harness
//! reads a clock, an address, a hash-map iteration order or the `rand` crate. Logging never
//! draws from this stream.

#[derive(Clone, Debug)]
pub struct Rng {
    s: [u64; 4],
}

#[inline]
pub fn splitmix64(x: &mut u64) -> u64 {
    *x = x.wrapping_add(0x9E37_79B9_7F4A_7C15);
    let mut z = *x;
    z = (z ^ (z >> 30)).wrapping_mul(0xBF58_476D_1CE4_E5B9);
    z = (z ^ (z >> 27)).wrapping_mul(0x94D0_49BB_1331_11EB);
    z ^ (z >> 31)
}

/// Stateless 64-bit mixer (used for hashing signatures and event logs).
#[inline]
pub fn mix64(mut z: u64) -> u64 {
    z = (z ^ (z >> 30)).wrapping_mul(0xBF58_476D_1CE4_E5B9);
    z = (z ^ (z >> 27)).wrapping_mul(0x94D0_49BB_1331_11EB);
    z ^ (z >> 31)
}

impl Rng {
    pub fn from_seed_run(seed: u64, run: u64) -> Rng {
        // two rounds so that (seed, run) and (seed+1, run-1) do not collide
        let mut a = seed ^ 0xA076_1D64_78BD_642F;
        let k0 = splitmix64(&mut a);
        let mut b = k0 ^ run.wrapping_mul(0xE703_7ED1_A0B4_28DB);
        let mut s = [0u64; 4];
        for x in s.iter_mut() {
            *x = splitmix64(&mut b);
        }
        if s == [0, 0, 0, 0] {
            s[0] = 1;
        }
        Rng { s }
    }

    #[inline]
    pub fn next_u64(&mut self) -> u64 {
        let r = self.s[1].wrapping_mul(5).rotate_left(7).wrapping_mul(9);
        let t = self.s[1] << 17;
        self.s[2] ^= self.s[0];
        self.s[3] ^= self.s[1];
        self.s[1] ^= self.s[2];
        self.s[0] ^= self.s[3];
        self.s[2] ^= t;
        self.s[3] = self.s[3].rotate_left(45);
        r
    }

    /// Uniform in `0..n` (n > 0). Multiply-shift; the tiny bias is irrelevant here and keeps the
    /// number of draws per call fixed at one, which keeps plans aligned across code changes.
    #[inline]
    pub fn below(&mut self, n: u64) -> u64 {
        debug_assert!(n > 0);
        ((self.next_u64() as u128 * n as u128) >> 64) as u64
    }

    #[inline]
    pub fn usize_below(&mut self, n: usize) -> usize {
        self.below(n as u64) as usize
    }

    /// true with probability num/den
    #[inline]
    pub fn chance(&mut self, num: u64, den: u64) -> bool {
        self.below(den) < num
    }

    pub fn shuffle<T>(&mut self, v: &mut [T]) {
        for i in (1..v.len()).rev() {
            let j = self.usize_below(i + 1);
            v.swap(i, j);
        }
    }
}

/// FNV-1a style incremental hasher with a final mix; deterministic across processes.
#[derive(Clone, Copy, Debug)]
pub struct Fnv(pub u64);

impl Default for Fnv {
    fn default() -> Self {
        Fnv(0xcbf2_9ce4_8422_2325)
    }
}

impl Fnv {
    #[inline]
    pub fn u64(&mut self, x: u64) {
        self.0 = (self.0 ^ x).wrapping_mul(0x0000_0100_0000_01B3);
        self.0 = self.0.rotate_left(23) ^ mix64(x.wrapping_add(self.0));
    }
    #[inline]
    pub fn bytes(&mut self, b: &[u8]) {
        for &c in b {
            self.0 = (self.0 ^ c as u64).wrapping_mul(0x0000_0100_0000_01B3);
        }
        self.u64(b.len() as u64);
    }
    #[inline]
    pub fn str(&mut self, s: &str) {
        self.bytes(s.as_bytes())
    }
    #[inline]
    pub fn finish(&self) -> u64 {
        mix64(self.0)
    }
}
