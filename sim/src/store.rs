//! SimStore: the write side of the simulated medium. Implements `serde::Serializer`; every call
//! that reaches it is one *write step*. The fault plan decides, step by step, whether the call
//! succeeds; a failed step leaves no data behind.
//!
//! `Ok = ()` on purpose: like a writer-backed format, the medium keeps what it was given, and
//! what the caller holds after `serialize` returned `Ok(())` is nothing but that promise. The
//! oracle then looks at what is actually on the medium.

use crate::medium::*;
use crate::node::*;
use crate::rng::Fnv;
use serde::ser::{self, Serialize};

const STEP_CAP: u32 = 4096;

#[derive(Clone, Copy, PartialEq, Eq, Debug)]
pub enum WStep {
    Leaf,
    OpenStruct,
    Field,
    End,
    Newtype,
    OpenOther,
    Element,
    Misc,
}

#[derive(Clone, Copy, Debug)]
pub struct FiredW {
    pub step: u32,
    pub kind: WKind,
    pub what: WStep,
    pub depth: u8,
}

enum Open {
    Struct { name: &'static str, len: usize, entries: Vec<(String, Node)>, pending: Option<&'static str> },
    Map { len: Option<usize>, entries: Vec<(Node, Node)>, pending: Option<Node>, want_value: bool },
    Seq { tag: SeqTag, name: &'static str, len: Option<usize>, items: Vec<Node> },
    Newtype { name: &'static str, inner: Option<Node> },
    Some { inner: Option<Node> },
}

pub struct Store<'p> {
    pub cfg: Medium,
    faults: &'p [WFault],
    step: u32,
    permanent: bool,
    stack: Vec<Open>,
    pub root: Option<Node>,
    pub root_writes: u32,
    pub fired: Vec<FiredW>,
    pub log: Fnv,
    /// description of every step taken (filled only when `trace` is on; used by the sweep
    /// builder and by replay output)
    pub trace: Option<Vec<(WStep, u8)>>,
    /// the code under test kept calling although every step failed: it does not terminate
    pub runaway: bool,
    /// an enum variant was written (this medium does not store enums)
    pub saw_enum: bool,
}

impl<'p> Store<'p> {
    pub fn new(cfg: Medium, faults: &'p [WFault]) -> Store<'p> {
        Store {
            cfg,
            faults,
            step: 0,
            permanent: false,
            stack: Vec::with_capacity(8),
            root: None,
            root_writes: 0,
            fired: Vec::new(),
            log: Fnv::default(),
            trace: None,
            runaway: false,
            saw_enum: false,
        }
    }

    pub fn steps(&self) -> u32 {
        self.step
    }

    /// An open container left on the stack after `serialize` returned: the record was never
    /// terminated.
    pub fn dangling(&self) -> usize {
        self.stack.len()
    }

    fn step(&mut self, what: WStep) -> Result<(), SimError> {
        let k = self.step;
        self.step += 1;
        let depth = self.stack.len() as u8;
        self.log.u64(0x5700 | what as u64);
        self.log.u64(depth as u64);
        if let Some(t) = self.trace.as_mut() {
            t.push((what, depth));
        }
        if k >= STEP_CAP {
            if k >= STEP_CAP * 8 {
                self.runaway = true;
                panic!("write side does not terminate");
            }
            return Err(SimError::Medium("write step cap exceeded"));
        }
        if self.permanent {
            self.fired.push(FiredW { step: k, kind: WKind::Permanent, what, depth });
            self.log.u64(0xFA17);
            return Err(SimError::Injected(k));
        }
        for f in self.faults {
            if f.step == k {
                if f.kind == WKind::Panic {
                    self.fired.push(FiredW { step: k, kind: f.kind, what, depth });
                    self.log.u64(0xFA18);
                    panic!("injected panic at write step {}", k);
                }
                if f.kind == WKind::Permanent {
                    self.permanent = true;
                }
                self.fired.push(FiredW { step: k, kind: f.kind, what, depth });
                self.log.u64(0xFA17);
                return Err(SimError::Injected(k));
            }
        }
        Ok(())
    }

    fn emit(&mut self, node: Node) -> Result<(), SimError> {
        match self.stack.last_mut() {
            None => {
                self.root = Some(node);
                self.root_writes += 1;
                Ok(())
            }
            Some(Open::Struct { entries, pending, .. }) => match pending.take() {
                Some(k) => {
                    entries.push((k.to_string(), node));
                    Ok(())
                }
                None => Err(SimError::Medium("value written into a struct without a field name")),
            },
            Some(Open::Map { entries, pending, want_value, .. }) => {
                if *want_value {
                    match pending.take() {
                        Some(k) => {
                            entries.push((k, node));
                            *want_value = false;
                            Ok(())
                        }
                        None => Err(SimError::Medium("map value without key")),
                    }
                } else {
                    *pending = Some(node);
                    Ok(())
                }
            }
            Some(Open::Seq { items, .. }) => {
                items.push(node);
                Ok(())
            }
            Some(Open::Newtype { inner, .. }) | Some(Open::Some { inner }) => {
                *inner = Some(node);
                Ok(())
            }
        }
    }

    fn leaf(&mut self, node: Node) -> Result<(), SimError> {
        self.step(WStep::Leaf)?;
        node.hash_into(&mut self.log);
        self.emit(node)
    }

    /// Drop containers left open by a callee that bailed out (their data is lost).
    fn unwind_to(&mut self, depth: usize) {
        self.stack.truncate(depth);
    }

    fn close(&mut self, depth: usize) -> Result<(), SimError> {
        // depth = index of the frame being closed
        self.unwind_to(depth + 1);
        self.step(WStep::End)?;
        let frame = match self.stack.pop() {
            Some(f) => f,
            None => return Err(SimError::Medium("end without open container")),
        };
        let node = match frame {
            Open::Struct { name, len, entries, .. } => {
                Node::Struct { name: name.to_string(), declared_len: len, entries }
            }
            Open::Map { len, entries, .. } => {
                // a map whose keys are all strings is a keyed record like any other
                if entries.iter().all(|(k, _)| matches!(k, Node::Str(_))) {
                    let n = entries.len();
                    Node::Struct {
                        name: "<map>".to_string(),
                        declared_len: len.unwrap_or(n),
                        entries: entries
                            .into_iter()
                            .map(|(k, v)| match k {
                                Node::Str(s) => (s, v),
                                _ => unreachable!(),
                            })
                            .collect(),
                    }
                } else {
                    Node::Map { declared_len: len, entries }
                }
            }
            Open::Seq { tag, name, len, items } => {
                Node::Seq { tag, name: name.to_string(), declared_len: len, items }
            }
            Open::Newtype { .. } | Open::Some { .. } => {
                return Err(SimError::Medium("end on a wrapper"))
            }
        };
        self.emit(node)
    }
}

pub struct Compound<'a, 'p> {
    st: &'a mut Store<'p>,
    depth: usize,
}

macro_rules! leaf_num {
    ($fn:ident, $t:ty, $kind:expr, $conv:expr) => {
        fn $fn(self, v: $t) -> Result<(), SimError> {
            #[allow(clippy::redundant_closure_call)]
            self.leaf(Node::Num { kind: $kind, bits: ($conv)(v) })
        }
    };
}

impl<'a, 'p> ser::Serializer for &'a mut Store<'p> {
    type Ok = ();
    type Error = SimError;
    type SerializeSeq = Compound<'a, 'p>;
    type SerializeTuple = Compound<'a, 'p>;
    type SerializeTupleStruct = Compound<'a, 'p>;
    type SerializeTupleVariant = Compound<'a, 'p>;
    type SerializeMap = Compound<'a, 'p>;
    type SerializeStruct = Compound<'a, 'p>;
    type SerializeStructVariant = Compound<'a, 'p>;

    leaf_num!(serialize_bool, bool, Kind::Bool, |v: bool| v as u64);
    leaf_num!(serialize_i8, i8, Kind::I8, |v: i8| v as i64 as u64);
    leaf_num!(serialize_i16, i16, Kind::I16, |v: i16| v as i64 as u64);
    leaf_num!(serialize_i32, i32, Kind::I32, |v: i32| v as i64 as u64);
    leaf_num!(serialize_i64, i64, Kind::I64, |v: i64| v as u64);
    leaf_num!(serialize_u8, u8, Kind::U8, |v: u8| v as u64);
    leaf_num!(serialize_u16, u16, Kind::U16, |v: u16| v as u64);
    leaf_num!(serialize_u32, u32, Kind::U32, |v: u32| v as u64);
    leaf_num!(serialize_u64, u64, Kind::U64, |v: u64| v);
    fn serialize_i128(self, v: i128) -> Result<(), SimError> {
        self.leaf(Node::Num { kind: Kind::I128, bits: crate::node::wide::encode(v) })
    }
    fn serialize_u128(self, v: u128) -> Result<(), SimError> {
        self.leaf(Node::Num { kind: Kind::U128, bits: crate::node::wide::encode(v as i128) })
    }
    leaf_num!(serialize_f32, f32, Kind::F32, |v: f32| v.to_bits() as u64);
    leaf_num!(serialize_f64, f64, Kind::F64, |v: f64| v.to_bits());

    fn serialize_char(self, v: char) -> Result<(), SimError> {
        self.leaf(Node::Char(v))
    }
    fn serialize_str(self, v: &str) -> Result<(), SimError> {
        self.leaf(Node::Str(v.to_string()))
    }
    fn serialize_bytes(self, v: &[u8]) -> Result<(), SimError> {
        self.leaf(Node::Bytes(v.to_vec()))
    }
    fn serialize_none(self) -> Result<(), SimError> {
        self.leaf(Node::None)
    }
    fn serialize_some<T: ?Sized + Serialize>(self, value: &T) -> Result<(), SimError> {
        self.step(WStep::Misc)?;
        let d = self.stack.len();
        self.stack.push(Open::Some { inner: None });
        let r = value.serialize(&mut *self);
        self.unwind_to(d + 1);
        let frame = self.stack.pop();
        r?;
        match frame {
            Some(Open::Some { inner: Some(n) }) => self.emit(Node::Some(Box::new(n))),
            _ => Err(SimError::Medium("some() without payload")),
        }
    }
    fn serialize_unit(self) -> Result<(), SimError> {
        self.leaf(Node::Unit)
    }
    fn serialize_unit_struct(self, _name: &'static str) -> Result<(), SimError> {
        self.leaf(Node::Unit)
    }
    fn serialize_unit_variant(
        self,
        name: &'static str,
        _i: u32,
        variant: &'static str,
    ) -> Result<(), SimError> {
        self.saw_enum = true;
        self.leaf(Node::Other(format!("{}::{}", name, variant)))
    }
    fn serialize_newtype_struct<T: ?Sized + Serialize>(
        self,
        name: &'static str,
        value: &T,
    ) -> Result<(), SimError> {
        self.step(WStep::Newtype)?;
        match self.cfg.newtype {
            NewtypeMode::Transparent => value.serialize(self),
            NewtypeMode::Wrapped => {
                let d = self.stack.len();
                self.stack.push(Open::Newtype { name, inner: None });
                let r = value.serialize(&mut *self);
                self.unwind_to(d + 1);
                let frame = self.stack.pop();
                r?;
                match frame {
                    Some(Open::Newtype { name, inner: Some(n) }) => {
                        self.emit(Node::Newtype { name: name.to_string(), inner: Box::new(n) })
                    }
                    _ => Err(SimError::Medium("newtype without payload")),
                }
            }
        }
    }
    fn serialize_newtype_variant<T: ?Sized + Serialize>(
        self,
        name: &'static str,
        _i: u32,
        variant: &'static str,
        _value: &T,
    ) -> Result<(), SimError> {
        self.saw_enum = true;
        self.leaf(Node::Other(format!("{}::{}(..)", name, variant)))
    }
    fn serialize_seq(self, len: Option<usize>) -> Result<Compound<'a, 'p>, SimError> {
        self.step(WStep::OpenOther)?;
        let depth = self.stack.len();
        self.stack.push(Open::Seq { tag: SeqTag::Seq, name: "", len, items: Vec::new() });
        Ok(Compound { st: self, depth })
    }
    fn serialize_tuple(self, len: usize) -> Result<Compound<'a, 'p>, SimError> {
        self.step(WStep::OpenOther)?;
        let depth = self.stack.len();
        self.stack.push(Open::Seq { tag: SeqTag::Tuple, name: "", len: Some(len), items: Vec::new() });
        Ok(Compound { st: self, depth })
    }
    fn serialize_tuple_struct(
        self,
        name: &'static str,
        len: usize,
    ) -> Result<Compound<'a, 'p>, SimError> {
        self.step(WStep::OpenOther)?;
        let depth = self.stack.len();
        self.stack.push(Open::Seq { tag: SeqTag::TupleStruct, name, len: Some(len), items: Vec::new() });
        Ok(Compound { st: self, depth })
    }
    fn serialize_tuple_variant(
        self,
        name: &'static str,
        _i: u32,
        _variant: &'static str,
        len: usize,
    ) -> Result<Compound<'a, 'p>, SimError> {
        self.saw_enum = true;
        self.serialize_tuple_struct(name, len)
    }
    fn serialize_map(self, len: Option<usize>) -> Result<Compound<'a, 'p>, SimError> {
        self.step(WStep::OpenOther)?;
        let depth = self.stack.len();
        self.stack.push(Open::Map { len, entries: Vec::new(), pending: None, want_value: false });
        Ok(Compound { st: self, depth })
    }
    fn serialize_struct(
        self,
        name: &'static str,
        len: usize,
    ) -> Result<Compound<'a, 'p>, SimError> {
        self.step(WStep::OpenStruct)?;
        let depth = self.stack.len();
        self.stack.push(Open::Struct { name, len, entries: Vec::with_capacity(len.min(8)), pending: None });
        Ok(Compound { st: self, depth })
    }
    fn serialize_struct_variant(
        self,
        name: &'static str,
        _i: u32,
        _variant: &'static str,
        len: usize,
    ) -> Result<Compound<'a, 'p>, SimError> {
        self.saw_enum = true;
        self.serialize_struct(name, len)
    }
    fn is_human_readable(&self) -> bool {
        self.cfg.human_readable
    }
}

impl<'a, 'p> Compound<'a, 'p> {
    fn element<T: ?Sized + Serialize>(&mut self, value: &T) -> Result<(), SimError> {
        self.st.unwind_to(self.depth + 1);
        self.st.step(WStep::Element)?;
        value.serialize(&mut *self.st)
    }
}

impl<'a, 'p> ser::SerializeStruct for Compound<'a, 'p> {
    type Ok = ();
    type Error = SimError;
    fn serialize_field<T: ?Sized + Serialize>(
        &mut self,
        key: &'static str,
        value: &T,
    ) -> Result<(), SimError> {
        self.st.unwind_to(self.depth + 1);
        self.st.step(WStep::Field)?;
        self.st.log.str(key);
        match self.st.stack.last_mut() {
            Some(Open::Struct { pending, .. }) => *pending = Some(key),
            _ => return Err(SimError::Medium("serialize_field on a non-struct")),
        }
        let r = value.serialize(&mut *self.st);
        // whatever the value left open is lost; so is a field name whose value never came
        self.st.unwind_to(self.depth + 1);
        if let Some(Open::Struct { pending, .. }) = self.st.stack.last_mut() {
            *pending = None;
        }
        r
    }
    /// A format that keeps a slot for every declared field records a skipped one as absent; the
    /// medium remembers the call so that "skipped, then written anyway" or "skipped and never
    /// written" shows in the structure.
    fn skip_field(&mut self, key: &'static str) -> Result<(), SimError> {
        self.st.unwind_to(self.depth + 1);
        self.st.step(WStep::Field)?;
        self.st.log.str(key);
        match self.st.stack.last_mut() {
            Some(Open::Struct { entries, .. }) => {
                entries.push((key.to_string(), Node::Other("<skipped field>".to_string())));
                Ok(())
            }
            _ => Err(SimError::Medium("skip_field on a non-struct")),
        }
    }
    fn end(self) -> Result<(), SimError> {
        self.st.close(self.depth)
    }
}

impl<'a, 'p> ser::SerializeStructVariant for Compound<'a, 'p> {
    type Ok = ();
    type Error = SimError;
    fn serialize_field<T: ?Sized + Serialize>(
        &mut self,
        key: &'static str,
        value: &T,
    ) -> Result<(), SimError> {
        ser::SerializeStruct::serialize_field(self, key, value)
    }
    fn end(self) -> Result<(), SimError> {
        self.st.close(self.depth)
    }
}

impl<'a, 'p> ser::SerializeMap for Compound<'a, 'p> {
    type Ok = ();
    type Error = SimError;
    fn serialize_key<T: ?Sized + Serialize>(&mut self, key: &T) -> Result<(), SimError> {
        self.st.unwind_to(self.depth + 1);
        self.st.step(WStep::Field)?;
        if let Some(Open::Map { want_value, pending, .. }) = self.st.stack.last_mut() {
            *want_value = false;
            *pending = None;
        }
        key.serialize(&mut *self.st)
    }
    fn serialize_value<T: ?Sized + Serialize>(&mut self, value: &T) -> Result<(), SimError> {
        self.st.unwind_to(self.depth + 1);
        self.st.step(WStep::Element)?;
        match self.st.stack.last_mut() {
            Some(Open::Map { want_value, pending, .. }) if pending.is_some() => *want_value = true,
            _ => return Err(SimError::Medium("map value without key")),
        }
        let r = value.serialize(&mut *self.st);
        self.st.unwind_to(self.depth + 1);
        if let Some(Open::Map { want_value, pending, .. }) = self.st.stack.last_mut() {
            if *want_value {
                *want_value = false;
                *pending = None;
            }
        }
        r
    }
    fn end(self) -> Result<(), SimError> {
        self.st.close(self.depth)
    }
}

macro_rules! seq_like {
    ($tr:ident, $m:ident) => {
        impl<'a, 'p> ser::$tr for Compound<'a, 'p> {
            type Ok = ();
            type Error = SimError;
            fn $m<T: ?Sized + Serialize>(&mut self, value: &T) -> Result<(), SimError> {
                self.element(value)
            }
            fn end(self) -> Result<(), SimError> {
                self.st.close(self.depth)
            }
        }
    };
}
seq_like!(SerializeSeq, serialize_element);
seq_like!(SerializeTuple, serialize_element);
seq_like!(SerializeTupleStruct, serialize_field);
seq_like!(SerializeTupleVariant, serialize_field);
