//! Every serializable cgmath type the simulator drives, with the scalars it is driven at.

use crate::medium::*;
use crate::node::{Kind, Node};
use crate::oracle::*;
use crate::source::skip_wrappers;
use crate::subject::*;
use cgmath::*;

pub struct TypeEntry {
    pub name: String,
    pub family: &'static str,
    pub is_dec: bool,
    pub shape: Shape,
    pub gen_kinds: Vec<(Kind, GenClass)>,
    /// generator leaves of the identity-like value (zero vector, identity rotation, unit scale)
    pub identity_gen: Vec<u64>,
    pub leaf_kinds: Vec<Kind>,
    pub faithful: bool,
    pub ops: Box<dyn Ops>,
    /// byte lane: write() calls and text length of a fault-free compact write of 1,2,3,...
    pub json_wcalls: u32,
    pub json_len: u32,
    /// fault-free step counts and record layout, per (framing, newtype mode)
    pub probes: Vec<Probe>,
}

impl TypeEntry {
    pub fn run(&self, plan: &Plan, opts: RunOpts) -> Outcome {
        run_plan(&*self.ops, plan, opts)
    }
    pub fn run_json(&self, plan: &crate::bytes::JPlan, opts: RunOpts) -> Outcome {
        crate::bytes::run_json(&*self.ops, plan, opts)
    }
}

#[derive(Clone, Debug, Default)]
pub struct Probe {
    pub wsteps: u32,
    pub rsteps: u32,
    /// every keyed record of the stored tree: path of entry indices, and its keys
    pub records: Vec<(Vec<u8>, Vec<String>)>,
}

fn entry<T: Subject>(family: &'static str) -> TypeEntry {
    let mut gen_kinds = Vec::new();
    T::gen_kinds(&mut gen_kinds);
    let shape = T::shape();
    let mut leaf_kinds = Vec::new();
    shape.leaf_kinds(&mut leaf_kinds);
    let name = T::type_name();
    let mut ident = Vec::new();
    T::identity(&mut ident);
    let identity_gen: Vec<u64> = gen_kinds.iter().zip(ident.iter()).map(|((k, _), n)| small_value(*k, *n)).collect();
    assert_eq!(identity_gen.len(), gen_kinds.len(), "identity leaves of {}", name);
    TypeEntry {
        identity_gen,
        is_dec: is_decomposed_name(&name),
        name,
        family,
        shape,
        gen_kinds,
        leaf_kinds,
        faithful: T::faithful(),
        ops: Box::new(OpsOf::<T>(std::marker::PhantomData)),
        json_wcalls: 0,
        json_len: 0,
        probes: Vec::new(),
    }
}

pub fn probe_index(m: &Medium) -> usize {
    (m.framing as usize) * 2 + (m.newtype as usize)
}

pub fn collect_records(node: &Node, path: &mut Vec<u8>, out: &mut Vec<(Vec<u8>, Vec<String>)>) {
    if let Node::Struct { entries, .. } = skip_wrappers(node) {
        out.push((path.clone(), entries.iter().map(|e| e.0.clone()).collect()));
        for (i, (_, v)) in entries.iter().enumerate() {
            path.push(i as u8);
            collect_records(v, path, out);
            path.pop();
        }
    }
}

macro_rules! add {
    ($v:ident, $fam:literal, $($t:ty),+ $(,)?) => {
        $($v.push(entry::<$t>($fam));)+
    };
}

pub fn registry() -> Vec<TypeEntry> {
    let mut v: Vec<TypeEntry> = Vec::new();
    add!(v, "Vector1", Vector1<f32>, Vector1<f64>, Vector1<i32>, Vector1<u8>, Vector1<i64>, Vector1<u64>);
    add!(v, "Vector2", Vector2<f32>, Vector2<f64>, Vector2<i32>, Vector2<u8>, Vector2<i64>, Vector2<u64>, Vector2<u128>, Vector2<isize>, Vector2<Rad<f32>>, Vector2<Quaternion<f64>>, Vector2<Vector2<f64>>);
    add!(v, "Vector3", Vector3<f32>, Vector3<f64>, Vector3<i32>, Vector3<u8>, Vector3<i64>, Vector3<u64>, Vector3<i8>, Vector3<i16>, Vector3<u16>, Vector3<u32>, Vector3<isize>, Vector3<usize>, Vector3<i128>, Vector3<u128>, Vector3<Rad<f32>>, Vector3<Deg<f64>>, Vector3<Matrix2<f32>>);
    add!(v, "Vector4", Vector4<f32>, Vector4<f64>, Vector4<i32>, Vector4<u8>, Vector4<i64>, Vector4<u64>, Vector4<Rad<f64>>);
    add!(v, "Point1", Point1<f32>, Point1<f64>, Point1<i32>, Point1<u8>, Point1<i64>, Point1<u64>, Point1<Matrix2<f64>>);
    add!(v, "Point2", Point2<f32>, Point2<f64>, Point2<i32>, Point2<u8>, Point2<i64>, Point2<u64>, Point2<Deg<f32>>, Point2<Quaternion<f64>>);
    add!(v, "Point3", Point3<f32>, Point3<f64>, Point3<i32>, Point3<u8>, Point3<i64>, Point3<u64>, Point3<i128>, Point3<usize>, Point3<Vector4<f64>>);
    add!(v, "Matrix2", Matrix2<f32>, Matrix2<f64>, Matrix2<i32>, Matrix2<isize>, Matrix2<u128>, Matrix2<Rad<f32>>);
    add!(v, "Matrix3", Matrix3<f32>, Matrix3<f64>, Matrix3<i32>);
    add!(v, "Matrix4", Matrix4<f32>, Matrix4<f64>, Matrix4<i32>);
    add!(v, "Quaternion", Quaternion<f32>, Quaternion<f64>, Quaternion<i32>, Quaternion<usize>, Quaternion<i128>, Quaternion<u128>);
    add!(v, "Rad", Rad<f32>, Rad<f64>);
    add!(v, "Deg", Deg<f32>, Deg<f64>);
    add!(v, "Euler", Euler<Rad<f32>>, Euler<Rad<f64>>, Euler<Deg<f32>>, Euler<Deg<f64>>);
    add!(v, "Basis2", Basis2<f32>, Basis2<f64>);
    add!(v, "Basis3", Basis3<f32>, Basis3<f64>);
    add!(v, "PerspectiveFov", PerspectiveFov<f32>, PerspectiveFov<f64>);
    add!(v, "Perspective", Perspective<f32>, Perspective<f64>);
    add!(v, "Ortho", Ortho<f32>, Ortho<f64>);
    add!(v, "PlanarFov", PlanarFov<f32>, PlanarFov<f64>);
    add!(
        v,
        "Decomposed",
        Decomposed<Vector3<f32>, Quaternion<f32>>,
        Decomposed<Vector3<f64>, Quaternion<f64>>,
        Decomposed<Vector3<f32>, Basis3<f32>>,
        Decomposed<Vector3<f64>, Basis3<f64>>,
        Decomposed<Vector2<f32>, Basis2<f32>>,
        Decomposed<Vector2<f64>, Basis2<f64>>,
        Decomposed<Vector4<f64>, Matrix4<f64>>,
        Decomposed<Vector1<f32>, Rad<f32>>,
        Decomposed<Vector2<f64>, Euler<Deg<f64>>>,
        Decomposed<Vector3<i32>, Quaternion<i32>>,
        Decomposed<Vector3<f64>, Matrix3<f64>>,
        Decomposed<Vector3<f32>, Euler<Rad<f32>>>,
        Decomposed<Vector3<i64>, Quaternion<i64>>,
        Decomposed<Vector3<u64>, Vector3<u64>>,
        Decomposed<Vector2<u8>, Vector2<u8>>,
        Decomposed<Vector3<i16>, Point3<i16>>,
        Decomposed<Vector3<f64>, Quaternion<f32>>,
        Decomposed<Vector4<f32>, Matrix3<f64>>,
        Decomposed<Vector3<i128>, Quaternion<i128>>,
        Decomposed<Vector2<usize>, Vector2<usize>>,
    );

    // fault-free probes: how many steps each direction takes, and where the records are
    for e in v.iter_mut() {
        let mut probes = vec![Probe::default(); 6];
        for framing in [Framing::KeyedSelfDelim, Framing::KeyedLenPrefixed, Framing::Positional] {
            for newtype in [NewtypeMode::Transparent, NewtypeMode::Wrapped] {
                let medium = Medium { framing, newtype, ..Medium::DEFAULT };
                let plan = Plan {
                    ty: e.name.clone(),
                    gen: simple_gen(&e.gen_kinds),
                    patch: None,
                    medium,
                    wfaults: vec![],
                    rfaults: vec![],
                    retry: false,
                    in_place: false,
                    null_field: None,
                };
                let o = e.run(&plan, RunOpts { trace: true });
                let mut p = Probe { wsteps: o.wsteps, rsteps: o.rsteps, records: vec![] };
                if let Some(d) = &o.detail {
                    p.records = d.records.clone();
                }
                probes[probe_index(&medium)] = p;
            }
        }
        e.probes = probes;
        let jp = crate::bytes::JPlan::base(&e.name, simple_gen(&e.gen_kinds));
        let o = e.run_json(&jp, RunOpts { trace: true });
        e.json_wcalls = o.wsteps;
        e.json_len = o.detail.as_ref().map(|d| d.json_len).unwrap_or(0);
    }
    v
}

/// 1, 2, 3, ... in each leaf's own kind.
pub fn simple_gen(kinds: &[(Kind, GenClass)]) -> Vec<u64> {
    kinds.iter().enumerate().map(|(i, (k, _))| small_value(*k, (i + 1) as i64)).collect()
}

pub fn small_value(k: Kind, n: i64) -> u64 {
    match k {
        Kind::F32 => (n as f32).to_bits() as u64,
        Kind::F64 => (n as f64).to_bits(),
        Kind::I8 => (n as i8) as i64 as u64,
        Kind::I16 => (n as i16) as i64 as u64,
        Kind::I32 => (n as i32) as i64 as u64,
        Kind::I64 => n as u64,
        Kind::U8 => (n.unsigned_abs() as u8) as u64,
        Kind::U16 => (n.unsigned_abs() as u16) as u64,
        Kind::U32 => (n.unsigned_abs() as u32) as u64,
        Kind::U64 => n.unsigned_abs(),
        Kind::Bool => (n & 1) as u64,
        Kind::I128 => n as u64,
        Kind::U128 => n.unsigned_abs(),
    }
}
