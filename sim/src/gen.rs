//! Plans: the seeded generator (random schedules and fault sequences), the deterministic sweep
//! (every single-fault position, every arrangement of Decomposed's fields) and the shrinker.

use crate::medium::*;
use crate::node::Kind;
use crate::oracle::Plan;
use crate::registry::*;
use crate::rng::Rng;
use crate::subject::GenClass;

pub const UNKNOWN_KEYS: [&str; 24] = [
    "rotation", "Scale", "scale ", " rot", "disp2", "", "w", "translation", "position", "0", "scal",
    "rots", "DISP", "s", "v", "mat", "1", "2", "3", "01", "+1", "-0", "1.0", "null",
];

const F64_SPECIALS: [u64; 26] = [
    // f32 quantities that ended up in an f64 (data imported from single precision)
    0x3FB9_9999_A000_0000, // 0.1f32 as f64
    0x47EF_FFFF_E000_0000, // f32::MAX as f64
    0x3E80_0000_0000_0000, // f32::EPSILON as f64
    0x3810_0000_0000_0000, // f32::MIN_POSITIVE as f64
    0x4009_21FB_6000_0000, // PI as f32 as f64
    0x3FD5_5555_6000_0000, // (1/3) as f32 as f64
    0x36A0_0000_0000_0000, // smallest f32 subnormal as f64
    0xBFE6_6666_6000_0000, // -0.7f32 as f64
    0x0000_0000_0000_0000, // 0.0
    0x8000_0000_0000_0000, // -0.0
    0x0000_0000_0000_0001, // min subnormal
    0x8000_0000_0000_0001,
    0x000F_FFFF_FFFF_FFFF, // max subnormal
    0x0010_0000_0000_0000, // MIN_POSITIVE
    0x7FEF_FFFF_FFFF_FFFF, // MAX
    0xFFEF_FFFF_FFFF_FFFF, // -MAX
    0x3CB0_0000_0000_0000, // EPSILON
    0x3FD5_5555_5555_5555, // 1/3
    0x3FB9_9999_9999_999A, // 0.1
    0x3FF0_0000_0000_0001, // 1 + ulp
    0x419D_6F34_547E_6B75, // 123456789.12345679 (17 significant digits)
    0x3E7A_D7F2_9ABC_AF48, // 1e-7
    0x4340_0000_0000_0000, // 2^53
    0x4340_0000_0000_0001, // 2^53 + 2
    0x0000_0000_0010_0000, // a mid subnormal
    0x7FE0_0000_0000_0000, // 2^1023
];

const F32_SPECIALS: [u32; 14] = [
    0x0000_0000, 0x8000_0000, 0x0000_0001, 0x8000_0001, 0x007F_FFFF, 0x0080_0000, 0x7F7F_FFFF,
    0xFF7F_FFFF, 0x3400_0000, 0x3EAA_AAAB, 0x3DCC_CCCD, 0x3F80_0001, 0x4B80_0000, 0x33D6_BF95,
];

#[derive(Clone, Copy, PartialEq, Eq, Debug)]
pub enum LeafStyle {
    SmallDistinct,
    RandomBits,
    Specials,
    Mixed,
    /// what a graphics programmer actually stores: decimals with a few digits, angles in degrees
    /// and multiples of pi, reciprocals, powers of two, pixel sizes
    Typical,
}

fn int_range(k: Kind) -> (i128, i128) {
    match k {
        Kind::I8 => (i8::MIN as i128, i8::MAX as i128),
        Kind::I16 => (i16::MIN as i128, i16::MAX as i128),
        Kind::I32 => (i32::MIN as i128, i32::MAX as i128),
        // the 128-bit kinds: range of the values that are their own code, see `gen_wide` for the rest
        Kind::I128 => (-(1i128 << 62), (1i128 << 62) - 1),
        Kind::I64 => (i64::MIN as i128, i64::MAX as i128),
        Kind::U8 => (0, u8::MAX as i128),
        Kind::U16 => (0, u16::MAX as i128),
        Kind::U32 => (0, u32::MAX as i128),
        Kind::U128 => (0, (1i128 << 62) - 1),
        Kind::U64 => (0, u64::MAX as i128),
        Kind::Bool => (0, 1),
        _ => (0, 0),
    }
}

fn int_bits(k: Kind, v: i128) -> u64 {
    match k {
        Kind::I8 | Kind::I16 | Kind::I32 | Kind::I64 => v as i64 as u64,
        Kind::I128 | Kind::U128 => crate::node::wide::encode(v),
        _ => v as u64,
    }
}

/// Leaves of the 128-bit kinds beyond what 64 bits hold (as the `i128` with the same bits).
fn gen_wide(k: Kind, style: LeafStyle, r: u64) -> Option<u64> {
    use crate::node::wide;
    let signed = k == Kind::I128;
    match style {
        LeafStyle::Specials => {
            let off = ((r >> 8) % 5) as i128 - 2;
            let v: i128 = if signed {
                [
                    i128::MIN,
                    i128::MAX,
                    i128::MIN + 1,
                    i128::MAX - 1,
                    i64::MIN as i128 + off,
                    i64::MAX as i128 + off,
                    u64::MAX as i128 + off,
                    -(u64::MAX as i128) + off,
                    (1i128 << 53) + off,
                    -(1i128 << 53) + off,
                    (1i128 << 96) + off,
                    -(1i128 << 96) + off,
                    0,
                    -1,
                ][(r % 14) as usize]
            } else {
                [
                    u128::MAX as i128,
                    (u128::MAX - 1) as i128,
                    i128::MAX,
                    i128::MIN,
                    i128::MIN + 1,
                    i64::MAX as i128 + off,
                    u64::MAX as i128 + off,
                    (1i128 << 53) + off,
                    (1i128 << 96) + off,
                    (1i128 << 64) + 127,
                    0,
                    1,
                ][(r % 12) as usize]
            };
            Some(wide::encode(v))
        }
        LeafStyle::RandomBits => {
            // two in three anywhere in the 128-bit space
            if r % 3 == 0 {
                None
            } else {
                Some((2u64 << 62) | ((r >> 2) & ((1u64 << 62) - 1)))
            }
        }
        _ => None,
    }
}

pub fn gen_leaf(rng: &mut Rng, k: Kind, class: GenClass, style: LeafStyle, ordinal: usize) -> u64 {
    let style = if style == LeafStyle::Mixed {
        match rng.below(4) {
            0 => LeafStyle::SmallDistinct,
            1 => LeafStyle::RandomBits,
            2 => LeafStyle::Typical,
            _ => LeafStyle::Specials,
        }
    } else {
        // keep the number of draws per leaf independent of the style
        let _ = rng.below(4);
        style
    };
    let r = rng.next_u64();
    if style == LeafStyle::Typical {
        let n = (r >> 8) % 100_000;
        let sign = if r & 1 == 0 { 1.0 } else { -1.0 };
        let mut x: f64 = match (r >> 1) % 12 {
            0 => sign * (n % 1000) as f64 / 10.0,
            1 => sign * n as f64 / 100.0,
            2 => sign * (n % 10_000) as f64 / 1000.0,
            3 => sign * std::f64::consts::PI * ((n % 17) as f64) / 4.0,
            4 => sign * [90.0, 180.0, 270.0, 360.0, 45.0, 30.0, 60.0, 359.99, 0.5, 0.25][(n % 10) as usize],
            5 => sign / (1 + n % 64) as f64,
            6 => sign * (1u64 << (n % 40)) as f64,
            7 => sign * [1920.0, 1080.0, 16.0 / 9.0, 4.0 / 3.0, 0.1, 0.01, 1000.0, 100.0, 1e-3, 1e6][(n % 10) as usize],
            8 => sign * (n % 360) as f64,
            9 => sign * ((n % 2000) as f64 / 1000.0 - 1.0),
            10 => sign * (n as f64).sqrt(),
            _ => sign * (n % 256) as f64,
        };
        if class == GenClass::Moderate {
            x %= 8.0;
        }
        if k == Kind::F64 && (r >> 40) & 3 == 0 {
            // a single-precision quantity stored in a double (imported data)
            x = (x as f32) as f64;
        }
        return match k {
            Kind::F64 => x.to_bits(),
            // computed in f32 the way a user would have (not an f64 rounded once)
            Kind::F32 => (x as f32).to_bits() as u64,
            Kind::Bool => r & 1,
            _ => {
                let (lo, hi) = int_range(k);
                int_bits(k, (x.abs().round() as i128 * if lo < 0 && sign < 0.0 { -1 } else { 1 }).clamp(lo, hi))
            }
        };
    }
    if class == GenClass::Moderate {
        // inputs of constructors that do arithmetic: keep every product finite and non-trivial
        let x = match style {
            LeafStyle::SmallDistinct => ((ordinal as i64 % 7) + 1) as f64 * if r & 1 == 0 { 1.0 } else { -1.0 },
            LeafStyle::Specials => [0.0, -0.0, 1.0, -1.0, 0.5, 1e-3, 3.141592653589793, 1e3][(r % 8) as usize],
            _ => ((r >> 11) as f64 / (1u64 << 53) as f64) * 16.0 - 8.0,
        };
        return match k {
            Kind::F32 => (x as f32).to_bits() as u64,
            _ => x.to_bits(),
        };
    }
    match k {
        Kind::F64 => match style {
            LeafStyle::SmallDistinct => {
                let n = (ordinal as i64 + 1) * if r & 1 == 0 { 1 } else { -1 };
                (n as f64 + if r & 2 == 0 { 0.0 } else { 0.5 }).to_bits()
            }
            LeafStyle::Specials => F64_SPECIALS[(r % F64_SPECIALS.len() as u64) as usize],
            _ => {
                // any finite bit pattern: exponent field 0x7ff is excluded
                let mut b = r;
                if (b >> 52) & 0x7ff == 0x7ff {
                    b &= !(1u64 << 62);
                }
                b
            }
        },
        Kind::F32 => match style {
            LeafStyle::SmallDistinct => {
                let n = (ordinal as i64 + 1) * if r & 1 == 0 { 1 } else { -1 };
                ((n as f32) + if r & 2 == 0 { 0.0 } else { 0.25 }).to_bits() as u64
            }
            LeafStyle::Specials => F32_SPECIALS[(r % F32_SPECIALS.len() as u64) as usize] as u64,
            _ => {
                let mut b = r as u32;
                if (b >> 23) & 0xff == 0xff {
                    b &= !(1u32 << 30);
                }
                b as u64
            }
        },
        Kind::Bool => r & 1,
        _ => {
            if matches!(k, Kind::I128 | Kind::U128) {
                if let Some(b) = gen_wide(k, style, r) {
                    return b;
                }
            }
            let (lo, hi) = int_range(k);
            let v: i128 = match style {
                LeafStyle::SmallDistinct => {
                    let n = (ordinal as i128) + 1;
                    if lo < 0 && r & 1 == 1 {
                        -n
                    } else {
                        n
                    }
                }
                LeafStyle::Specials => [lo, hi, 0, if lo < 0 { -1 } else { 1 }, hi - 1, lo + 1][(r % 6) as usize],
                _ => {
                    let span = (hi - lo) as u128 + 1;
                    lo + ((r as u128 * 0x9E37_79B9_7F4A_7C15u128) % span) as i128
                }
            };
            int_bits(k, v.clamp(lo, hi))
        }
    }
}

pub fn gen_leaves(rng: &mut Rng, kinds: &[(Kind, GenClass)], style: LeafStyle) -> Vec<u64> {
    kinds
        .iter()
        .enumerate()
        .map(|(i, (k, c))| {
            let b = gen_leaf(rng, *k, *c, style, i);
            // one time in five a float lands a few ulps beside the "nice" value: the pitch clamp just
            // under a quarter turn, an angle accumulated in steps, a bound nudged to stay inside
            let r = rng.next_u64();
            if k.is_float() && matches!(style, LeafStyle::Specials | LeafStyle::Typical | LeafStyle::Mixed) && r % 5 == 0 {
                ulp_neighbour(*k, b, ((r >> 8) % 4 + 1) as i64 * if (r >> 16) & 1 == 0 { 1 } else { -1 })
            } else {
                b
            }
        })
        .collect()
}

/// The float `n` ulps away (in bit-pattern order, which is value order within one sign), if that
/// is still a finite value of the same sign; otherwise the value itself.
pub fn ulp_neighbour(k: Kind, bits: u64, n: i64) -> u64 {
    match k {
        Kind::F64 => {
            let mag = bits & 0x7fff_ffff_ffff_ffff;
            let m2 = mag as i128 + n as i128;
            if m2 <= 0 || m2 >= 0x7ff0_0000_0000_0000 {
                bits
            } else {
                (bits & 0x8000_0000_0000_0000) | m2 as u64
            }
        }
        Kind::F32 => {
            let b = bits as u32;
            let mag = b & 0x7fff_ffff;
            let m2 = mag as i64 + n;
            if m2 <= 0 || m2 >= 0x7f80_0000 {
                bits
            } else {
                ((b & 0x8000_0000) | m2 as u32) as u64
            }
        }
        _ => bits,
    }
}

/// Values with the coincidences ordinary user data is full of and independent draws never
/// produce: the identity (zero displacement, identity rotation, unit scale), the identity with one
/// or two components disturbed, and values whose components all come from a palette of one to three
/// numbers (equal components, symmetric matrices, many zeros and ones).
pub fn gen_coincident(rng: &mut Rng, e: &TypeEntry) -> Vec<u64> {
    let kinds = &e.gen_kinds;
    match rng.below(4) {
        0 => e.identity_gen.clone(),
        1 => {
            let mut g = e.identity_gen.clone();
            let n = 1 + rng.usize_below(2);
            for _ in 0..n {
                if g.is_empty() {
                    break;
                }
                let i = rng.usize_below(g.len());
                let st = [LeafStyle::SmallDistinct, LeafStyle::Specials, LeafStyle::RandomBits][rng.usize_below(3)];
                g[i] = gen_leaf(rng, kinds[i].0, kinds[i].1, st, i);
            }
            g
        }
        _ => {
            let np = 1 + rng.usize_below(3);
            // i64::MIN stands for negative zero (plain zero for integer kinds)
            let pal: Vec<i64> = (0..np).map(|_| [0i64, 1, -1, 2, 1, 0, 3, -2, 7, 100, i64::MIN, 0][rng.usize_below(12)]).collect();
            let exotic = rng.chance(1, 3);
            let ex_style = [LeafStyle::Specials, LeafStyle::RandomBits][rng.usize_below(2)];
            // one exotic value per kind, shared by every leaf that picks it
            let mut ex: Vec<((Kind, GenClass), u64)> = Vec::new();
            kinds
                .iter()
                .enumerate()
                .map(|(i, (k, c))| {
                    let pick = rng.usize_below(np + exotic as usize);
                    if pick < np {
                        if pal[pick] == i64::MIN {
                            match k {
                                Kind::F32 => 0x8000_0000,
                                Kind::F64 => 0x8000_0000_0000_0000,
                                _ => 0,
                            }
                        } else {
                            small_value(*k, pal[pick])
                        }
                    } else if let Some((_, b)) = ex.iter().find(|(kk, _)| *kk == (*k, *c)) {
                        *b
                    } else {
                        let b = gen_leaf(rng, *k, *c, ex_style, i);
                        ex.push(((*k, *c), b));
                        b
                    }
                })
                .collect()
        }
    }
}

fn gen_medium(rng: &mut Rng) -> Medium {
    let m = gen_medium_structured(rng);
    // half of the positional media have no structure at all
    let u = rng.chance(1, 2);
    // and half of the structured ones show where a record ends
    let c = rng.chance(1, 2);
    let untyped = u && m.framing == Framing::Positional;
    Medium { untyped, clean_end: c && m.framing == Framing::Positional && !untyped, ..m }
}

fn gen_medium_structured(rng: &mut Rng) -> Medium {
    Medium {
        framing: match rng.below(10) {
            0..=4 => Framing::KeyedSelfDelim,
            5..=7 => Framing::KeyedLenPrefixed,
            _ => Framing::Positional,
        },
        key_form: [KeyForm::Str, KeyForm::Borrowed, KeyForm::String, KeyForm::Str, KeyForm::Borrowed, KeyForm::String, KeyForm::Bytes, KeyForm::BorrowedBytes, KeyForm::Index][rng.usize_below(9)],
        nums: if rng.chance(1, 2) { NumDelivery::Typed } else { NumDelivery::Widened },
        newtype: if rng.chance(1, 2) { NewtypeMode::Transparent } else { NewtypeMode::Wrapped },
        human_readable: rng.chance(1, 2),
        size_hint: [SizeHint::None, SizeHint::Exact, SizeHint::Lower, SizeHint::Upper][rng.usize_below(4)],
        filter_fields: rng.chance(1, 6),
        check_names: rng.chance(1, 5),
        untyped: false,
        clean_end: false,
    }
}

fn random_perm(rng: &mut Rng, n: usize) -> Vec<u8> {
    let mut p: Vec<u8> = (0..n as u8).collect();
    rng.shuffle(&mut p);
    p
}

/// Keys one small edit away from a real field name of the record: the ones a sloppy comparison
/// (prefix, case-insensitive, trimmed, NUL-terminated) would take for the field.
/// Characters a sloppy comparison might strip from a key: common sigils and separators, plus every
/// char literal found in the sources of the tree under test.
pub fn affix_chars() -> Vec<char> {
    // every printable ASCII character, a few invisible / non-ASCII ones, and every char literal of the tree
    let mut v: Vec<char> = (0x20u8..0x7f).map(|b| b as char).collect();
    v.extend(['\t', '\n', '\u{a0}', '\u{200b}', '\u{feff}', '\u{e9}', '\u{1}']);
    for c in harvested_chars() {
        if !v.contains(c) {
            v.push(*c);
        }
    }
    v
}

pub fn near_miss_keys(field: &str) -> Vec<String> {
    let mut v = vec![
        format!("{}\0", field),
        format!("\0{}", field),
        format!("{} ", field),
        format!(" {}", field),
        field.to_uppercase(),
        format!("{}s", field),
        format!("{}{}", field, field),
    ];
    for c in affix_chars() {
        v.push(format!("{}{}", c, field));
        v.push(format!("{}{}", field, c));
        v.push(format!("{}{}{}", c, c, field));
    }
    if field.len() > 1 {
        v.push(field[..field.len() - 1].to_string());
        v.push(field[1..].to_string());
        let mut c: Vec<char> = field.chars().collect();
        c[0] = c[0].to_ascii_uppercase();
        v.push(c.into_iter().collect());
    }
    v
}

/// One random edit of a key: insert / delete / replace / duplicate a character, flip case.
fn mutate_key(rng: &mut Rng, key: &str) -> String {
    let mut c: Vec<char> = key.chars().collect();
    let pool = affix_chars();
    let pick = pool[rng.usize_below(pool.len())];
    match rng.below(6) {
        0 => c.insert(rng.usize_below(c.len() + 1), pick),
        1 if !c.is_empty() => {
            c.remove(rng.usize_below(c.len()));
        }
        2 if !c.is_empty() => {
            let i = rng.usize_below(c.len());
            c[i] = pick;
        }
        3 if !c.is_empty() => {
            let i = rng.usize_below(c.len());
            let d = c[i];
            c.insert(i, d);
        }
        4 if !c.is_empty() => {
            let i = rng.usize_below(c.len());
            c[i] = if c[i].is_uppercase() { c[i].to_ascii_lowercase() } else { c[i].to_ascii_uppercase() };
        }
        _ => c.push(pick),
    }
    c.into_iter().collect()
}

fn pick_unknown_key(rng: &mut Rng, keys: &[String]) -> String {
    if !keys.is_empty() && rng.chance(1, 4) {
        let mut k = keys[rng.usize_below(keys.len())].clone();
        for _ in 0..1 + rng.usize_below(2) {
            k = mutate_key(rng, &k);
        }
        if !keys.iter().any(|x| *x == k) {
            return k;
        }
    }
    let dict = harvested();
    if !dict.is_empty() && rng.chance(1, 6) {
        let k = &dict[rng.usize_below(dict.len())];
        if !keys.iter().any(|x| x == k) {
            return k.clone();
        }
    }
    if !keys.is_empty() && rng.chance(1, 2) {
        let f = &keys[rng.usize_below(keys.len())];
        let nm = near_miss_keys(f);
        let k = &nm[rng.usize_below(nm.len())];
        if !keys.iter().any(|x| x == k) {
            return k.clone();
        }
    }
    for _ in 0..8 {
        let k = UNKNOWN_KEYS[rng.usize_below(UNKNOWN_KEYS.len())];
        if !keys.iter().any(|x| x == k) {
            return k.to_string();
        }
    }
    "__unknown__".to_string()
}

fn gen_uval(rng: &mut Rng, n: usize) -> UVal {
    match rng.below(7) {
        0 | 1 => UVal::Num,
        2 => UVal::Str,
        3 => UVal::Rec,
        4 => UVal::Seq,
        5 => UVal::Unit,
        _ => UVal::CopyOf(rng.below(n.max(1) as u64) as u8),
    }
}

/// One structural read fault aimed at a record of the stored tree.
fn gen_struct_fault(rng: &mut Rng, records: &[(Vec<u8>, Vec<String>)], top_bias: bool) -> Option<RFault> {
    if records.is_empty() {
        return None;
    }
    // in-flight state lives in the top-level record of a Decomposed: aim there most of the time
    let ri = if top_bias && rng.chance(7, 10) { 0 } else { rng.usize_below(records.len()) };
    let (path, keys) = &records[ri];
    let n = keys.len();
    if n == 0 {
        return None;
    }
    Some(match rng.below(10) {
        0..=2 => RFault::Reorder { path: path.clone(), perm: random_perm(rng, n) },
        3..=5 => {
            let mut idx: Vec<u8> = (0..n as u8).filter(|_| rng.chance(1, 3)).collect();
            if idx.is_empty() {
                idx.push(rng.below(n as u64) as u8);
            }
            RFault::Drop { path: path.clone(), idx }
        }
        6..=8 => RFault::Unknown {
            path: path.clone(),
            pos: rng.below(n as u64 + 1) as u8,
            key: pick_unknown_key(rng, keys),
            val: gen_uval(rng, n),
        },
        _ => RFault::Dup { path: path.clone(), idx: rng.below(n as u64) as u8, pos: rng.below(n as u64 + 2) as u8 },
    })
}

/// The seeded generator: everything about run `run` of the batch with seed `seed`.
pub fn random_plan(reg: &[TypeEntry], seed: u64, run: u64) -> Plan {
    let mut rng = Rng::from_seed_run(seed, run);
    // 45 % of runs go to a Decomposed type: clause (c) of the property lives there
    let dec: Vec<usize> = reg.iter().enumerate().filter(|(_, e)| e.is_dec).map(|(i, _)| i).collect();
    let ti = if rng.chance(45, 100) && !dec.is_empty() { dec[rng.usize_below(dec.len())] } else { rng.usize_below(reg.len()) };
    let e = &reg[ti];
    let medium = gen_medium(&mut rng);
    let style = [LeafStyle::SmallDistinct, LeafStyle::RandomBits, LeafStyle::Specials, LeafStyle::Mixed, LeafStyle::Typical][rng.usize_below(5)];
    let gen = if rng.chance(1, 5) { gen_coincident(&mut rng, e) } else { gen_leaves(&mut rng, &e.gen_kinds, style) };
    let probe = &e.probes[probe_index(&medium)];
    let mut plan = Plan { ty: e.name.clone(), gen, patch: None, medium, wfaults: vec![], rfaults: vec![], retry: false, in_place: false, null_field: None };

    // swarm: which fault classes this run may use at all
    let mode = rng.below(100);
    if mode < 30 {
        // fault-free; a third of these read a record whose leaves were overwritten with arbitrary bits
        if rng.chance(1, 3) {
            let kinds: Vec<(Kind, GenClass)> = e.leaf_kinds.iter().map(|k| (*k, GenClass::Any)).collect();
            let st = [LeafStyle::RandomBits, LeafStyle::Specials, LeafStyle::Mixed][rng.usize_below(3)];
            plan.patch = Some(gen_leaves(&mut rng, &kinds, st));
        }
    } else if mode < 55 {
        // write-side faults
        let n = match rng.below(20) {
            0..=15 => 1,
            16..=18 => 2,
            _ => 3,
        };
        for _ in 0..n {
            // bias towards the last steps (the `end` calls) and the first
            let w = probe.wsteps.max(1) as u64;
            let step = match rng.below(10) {
                0 => 0,
                1 | 2 => w - 1 - rng.below(w.min(3)),
                _ => rng.below(w),
            } as u32;
            let kind = match rng.below(12) {
                0 => WKind::Panic,
                1..=4 => WKind::Permanent,
                _ => WKind::Transient,
            };
            plan.wfaults.push(WFault { step, kind });
        }
        plan.retry = rng.chance(1, 4);
    } else {
        // read-side faults
        let n = match rng.below(20) {
            0..=12 => 1,
            13..=17 => 2,
            _ => 3,
        };
        for _ in 0..n {
            let structural = medium.keyed() && rng.chance(3, 4);
            if structural {
                if let Some(f) = gen_struct_fault(&mut rng, &probe.records, e.is_dec) {
                    plan.rfaults.push(f);
                    continue;
                }
            }
            let r = probe.rsteps.max(1) as u64;
            if rng.chance(1, 12) {
                plan.rfaults.push(RFault::Panic { step: rng.below(r) as u32 });
            } else {
                plan.rfaults.push(RFault::Err { step: rng.below(r) as u32, permanent: rng.chance(1, 3) });
            }
        }
        plan.retry = rng.chance(1, 4);
    }
    plan.in_place = rng.chance(1, 6);
    if rng.chance(1, 16) && plan.wfaults.is_empty() && !probe.records.is_empty() {
        // a key whose data did not arrive; judged on its own
        let (path, keys) = &probe.records[if e.is_dec && rng.chance(1, 2) { 0 } else { rng.usize_below(probe.records.len()) }];
        if !keys.is_empty() {
            let mut p = path.clone();
            p.push(rng.usize_below(keys.len()) as u8);
            plan.null_field = Some(p);
            plan.rfaults.clear();
            plan.patch = None;
        }
    }
    plan
}

/// All ordered arrangements of all subsets of 0..n.
fn arrangements(n: usize) -> Vec<Vec<u8>> {
    fn rec(n: usize, cur: &mut Vec<u8>, used: &mut Vec<bool>, out: &mut Vec<Vec<u8>>) {
        out.push(cur.clone());
        for i in 0..n {
            if !used[i] {
                used[i] = true;
                cur.push(i as u8);
                rec(n, cur, used, out);
                cur.pop();
                used[i] = false;
            }
        }
    }
    let mut out = Vec::new();
    rec(n, &mut Vec::new(), &mut vec![false; n], &mut out);
    out
}

/// The deterministic part of every batch: no probe can stay at zero by bad luck.
pub fn sweep_plans(reg: &[TypeEntry]) -> Vec<Plan> {
    let mut out = Vec::new();
    let framings = [Framing::KeyedSelfDelim, Framing::KeyedLenPrefixed, Framing::Positional];
    for e in reg {
        let gen = simple_gen(&e.gen_kinds);
        for (fi, framing) in framings.iter().enumerate() {
            for newtype in [NewtypeMode::Transparent, NewtypeMode::Wrapped] {
                let medium = Medium {
                    framing: *framing,
                    newtype,
                    key_form: [KeyForm::Str, KeyForm::Borrowed, KeyForm::String][fi],
                    nums: if newtype == NewtypeMode::Wrapped { NumDelivery::Widened } else { NumDelivery::Typed },
                    human_readable: fi != 1,
                    size_hint: [SizeHint::None, SizeHint::Exact, SizeHint::Lower][fi],
                    filter_fields: newtype == NewtypeMode::Wrapped && fi == 0,
                    check_names: newtype == NewtypeMode::Wrapped,
                    untyped: false,
                    clean_end: false,
                };
                let base = Plan { ty: e.name.clone(), gen: gen.clone(), patch: None, medium, wfaults: vec![], rfaults: vec![], retry: false, in_place: false, null_field: None };
                let p = &e.probes[probe_index(&medium)];
                // fault-free
                out.push(base.clone());
                // fault-free with the value users hold most often: zero / identity / unit scale
                let mut q = base.clone();
                q.gen = e.identity_gen.clone();
                out.push(q.clone());
                q.in_place = true;
                out.push(q);
                // every single write-fault position, both kinds
                for k in 0..p.wsteps {
                    for kind in [WKind::Transient, WKind::Permanent] {
                        let mut q = base.clone();
                        q.wfaults.push(WFault { step: k, kind });
                        q.retry = k == 0;
                        out.push(q);
                    }
                }
                // every single read-error position, both kinds
                for k in 0..p.rsteps {
                    for permanent in [false, true] {
                        let mut q = base.clone();
                        q.rfaults.push(RFault::Err { step: k, permanent });
                        out.push(q);
                    }
                }
            }
        }
        // the medium without structure (bincode-like): every component is "the next number", so
        // only the order in which reader and writer take the components keeps them apart
        for nums in [NumDelivery::Typed, NumDelivery::Widened] {
            for hr in [false, true] {
                let medium = Medium { framing: Framing::Positional, untyped: true, nums, human_readable: hr, size_hint: if hr { SizeHint::None } else { SizeHint::Exact }, ..Medium::DEFAULT };
                let base = Plan { ty: e.name.clone(), gen: gen.clone(), patch: None, medium, wfaults: vec![], rfaults: vec![], retry: false, in_place: false, null_field: None };
                out.push(base.clone());
                let mut q = base.clone();
                q.in_place = true;
                out.push(q);
                let mut q = base.clone();
                q.gen = e.identity_gen.clone();
                out.push(q);
            }
        }
        // every key of every record, once with its value replaced by null / unit
        for hr in [true, false] {
            for framing in [Framing::KeyedSelfDelim, Framing::Positional] {
                let medium = Medium { framing, human_readable: hr, ..Medium::DEFAULT };
                let recs = e.probes[probe_index(&medium)].records.clone();
                for (path, keys) in &recs {
                    for i in 0..keys.len() as u8 {
                        let mut np = path.clone();
                        np.push(i);
                        let mut q = Plan { ty: e.name.clone(), gen: gen.clone(), patch: None, medium, wfaults: vec![], rfaults: vec![], retry: false, in_place: false, null_field: Some(np) };
                        out.push(q.clone());
                        if hr {
                            q.in_place = true;
                            out.push(q);
                        }
                    }
                }
            }
        }
        if !e.is_dec {
            continue;
        }
        // a positional record that ends early (an array with one, two or no elements)
        for hr in [true, false] {
            let medium = Medium { framing: Framing::Positional, clean_end: true, human_readable: hr, ..Medium::DEFAULT };
            for keep in 0..3u8 {
                for in_place in [false, true] {
                    let q = Plan {
                        ty: e.name.clone(),
                        gen: gen.clone(),
                        patch: None,
                        medium,
                        wfaults: vec![],
                        rfaults: vec![RFault::Drop { path: vec![], idx: (keep..3).collect() }],
                        retry: false,
                        in_place,
                        null_field: None,
                    };
                    out.push(q);
                }
            }
        }
        // clause (c): every arrangement of every subset of the three fields, with and without an
        // unknown entry at every position, through every key form, on both keyed framings
        for framing in [Framing::KeyedSelfDelim, Framing::KeyedLenPrefixed] {
            for (ki, key_form) in [KeyForm::Str, KeyForm::Borrowed, KeyForm::String, KeyForm::Bytes, KeyForm::BorrowedBytes, KeyForm::Index].into_iter().enumerate() {
                let medium = Medium { framing, key_form, size_hint: [SizeHint::Lower, SizeHint::None, SizeHint::Exact, SizeHint::Upper][ki % 4], ..Medium::DEFAULT };
                let base = Plan { ty: e.name.clone(), gen: gen.clone(), patch: None, medium, wfaults: vec![], rfaults: vec![], retry: false, in_place: false, null_field: None };
                let p = &e.probes[probe_index(&medium)];
                let n = p.records.first().map(|r| r.1.len()).unwrap_or(0);
                if n == 0 || n > 4 {
                    continue;
                }
                for arr in arrangements(n) {
                    let mut faults = Vec::new();
                    let dropped: Vec<u8> = (0..n as u8).filter(|i| !arr.contains(i)).collect();
                    // order: the kept ones in `arr` order, the dropped ones (irrelevant) after
                    let mut perm = arr.clone();
                    perm.extend(dropped.iter().copied());
                    faults.push(RFault::Reorder { path: vec![], perm });
                    if !dropped.is_empty() {
                        faults.push(RFault::Drop { path: vec![], idx: dropped.clone() });
                    }
                    let mut q = base.clone();
                    q.rfaults = faults.clone();
                    out.push(q.clone());
                    // the same delivery into reused storage
                    q.in_place = true;
                    out.push(q);
                    let keys = &p.records[0].1;
                    for pos in 0..=arr.len() as u8 {
                        for (key, val) in [
                            ("rotation", UVal::CopyOf(1)),
                            ("Scale", UVal::Num),
                            ("", UVal::Unit),
                            ("w", UVal::Rec),
                            // field indices spelled as text, and other things a lenient key parser might accept
                            ("0", UVal::CopyOf(0)),
                            ("1", UVal::CopyOf(1)),
                            ("2", UVal::CopyOf(2)),
                            ("3", UVal::Num),
                            ("01", UVal::CopyOf(1)),
                            ("+2", UVal::CopyOf(2)),
                            ("0x1", UVal::CopyOf(1)),
                            ("true", UVal::Num),
                        ] {
                            let mut q = base.clone();
                            q.rfaults = faults.clone();
                            q.rfaults.push(RFault::Unknown { path: vec![], pos, key: key.to_string(), val });
                            q.in_place = pos == 1;
                            out.push(q);
                        }
                        // near misses of each real field name, carrying that field's own payload:
                        // next to the complete record (two orders), and standing in for that very
                        // field when it is the one that is missing
                        let complete = arr.len() == n && (arr[0] == 0 || arr[0] == 1);
                        let one_missing = arr.len() + 1 == n && arr.windows(2).all(|w| w[0] < w[1]);
                        if framing == Framing::KeyedSelfDelim
                            && matches!(key_form, KeyForm::Str | KeyForm::String | KeyForm::Bytes)
                            && (pos == 0 || pos as usize == arr.len())
                            && (complete || one_missing)
                        {
                            for (fi, f) in keys.iter().enumerate() {
                                if one_missing && arr.contains(&(fi as u8)) {
                                    continue;
                                }
                                for key in near_miss_keys(f) {
                                    if keys.iter().any(|k| *k == key) {
                                        continue;
                                    }
                                    let mut q = base.clone();
                                    q.rfaults = faults.clone();
                                    q.rfaults.push(RFault::Unknown { path: vec![], pos, key, val: UVal::CopyOf(fi as u8) });
                                    out.push(q);
                                }
                            }
                        }
                    }
                }
                // every string literal of the tree under test as an extra key, in front and at the
                // end, carrying each field's own payload, a number and a string
                if framing == Framing::KeyedSelfDelim && (key_form == KeyForm::Str || key_form == KeyForm::Bytes) {
                    let keys = &p.records[0].1;
                    for lit in harvested() {
                        if keys.iter().any(|k| k == lit) {
                            continue;
                        }
                        for pos in [0u8, n as u8] {
                            let mut vals: Vec<UVal> = (0..n as u8).map(UVal::CopyOf).collect();
                            vals.push(UVal::Num);
                            vals.push(UVal::Str);
                            for val in vals {
                                let mut q = base.clone();
                                q.rfaults.push(RFault::Unknown { path: vec![], pos, key: lit.clone(), val });
                                out.push(q);
                                // and standing in for the field whose payload it carries
                                if let UVal::CopyOf(i) = val {
                                    let mut q = base.clone();
                                    q.rfaults.push(RFault::Drop { path: vec![], idx: vec![i] });
                                    q.rfaults.push(RFault::Unknown { path: vec![], pos, key: lit.clone(), val });
                                    out.push(q);
                                }
                            }
                        }
                    }
                }
                // one field missing AND another one delivered twice (the entry count stays n), read
                // normally and into reused storage
                for miss in 0..n as u8 {
                    for dup in 0..n as u8 {
                        if dup == miss {
                            continue;
                        }
                        for pos in [0u8, n as u8] {
                            for in_place in [false, true] {
                                let mut q = base.clone();
                                q.rfaults.push(RFault::Drop { path: vec![], idx: vec![miss] });
                                q.rfaults.push(RFault::Dup { path: vec![], idx: dup, pos });
                                q.in_place = in_place;
                                out.push(q);
                            }
                        }
                    }
                }
                // duplicates of every field at every position
                for idx in 0..n as u8 {
                    for pos in 0..=n as u8 {
                        let mut q = base.clone();
                        q.rfaults.push(RFault::Dup { path: vec![], idx, pos });
                        out.push(q);
                    }
                }
                // single-field omissions inside the nested records (coverage; A9 only)
                for (path, keys) in p.records.iter().skip(1) {
                    for i in 0..keys.len() as u8 {
                        let mut q = base.clone();
                        q.rfaults.push(RFault::Drop { path: path.clone(), idx: vec![i] });
                        out.push(q);
                    }
                    let mut q = base.clone();
                    let mut perm: Vec<u8> = (0..keys.len() as u8).collect();
                    perm.reverse();
                    q.rfaults.push(RFault::Reorder { path: path.clone(), perm });
                    out.push(q);
                }
            }
        }
    }
    out
}

/// Candidates one shrinking step away from `p`, simplest first.
pub fn shrink_candidates(p: &Plan, reg: &[TypeEntry]) -> Vec<Plan> {
    let mut out = Vec::new();
    // drop faults
    for i in 0..p.wfaults.len() {
        let mut q = p.clone();
        q.wfaults.remove(i);
        out.push(q);
    }
    for i in 0..p.rfaults.len() {
        let mut q = p.clone();
        q.rfaults.remove(i);
        out.push(q);
    }
    if p.retry {
        let mut q = p.clone();
        q.retry = false;
        out.push(q);
    }
    if p.in_place {
        let mut q = p.clone();
        q.in_place = false;
        out.push(q);
    }
    if p.patch.is_some() {
        let mut q = p.clone();
        q.patch = None;
        out.push(q);
    }
    // simplify faults
    for i in 0..p.rfaults.len() {
        match &p.rfaults[i] {
            RFault::Reorder { path, perm } => {
                // undo one inversion
                for a in 0..perm.len().saturating_sub(1) {
                    if perm[a] > perm[a + 1] {
                        let mut q = p.clone();
                        let mut np = perm.clone();
                        np.swap(a, a + 1);
                        q.rfaults[i] = RFault::Reorder { path: path.clone(), perm: np };
                        out.push(q);
                    }
                }
            }
            RFault::Drop { path, idx } if idx.len() > 1 => {
                for j in 0..idx.len() {
                    let mut q = p.clone();
                    let mut ni = idx.clone();
                    ni.remove(j);
                    q.rfaults[i] = RFault::Drop { path: path.clone(), idx: ni };
                    out.push(q);
                }
            }
            RFault::Unknown { path, pos, key, val } => {
                if *val != UVal::Num {
                    let mut q = p.clone();
                    q.rfaults[i] = RFault::Unknown { path: path.clone(), pos: *pos, key: key.clone(), val: UVal::Num };
                    out.push(q);
                }
                if key != "unknown" {
                    let mut q = p.clone();
                    q.rfaults[i] = RFault::Unknown { path: path.clone(), pos: *pos, key: "unknown".to_string(), val: *val };
                    out.push(q);
                }
            }
            RFault::Err { step, permanent: true } => {
                let mut q = p.clone();
                q.rfaults[i] = RFault::Err { step: *step, permanent: false };
                out.push(q);
            }
            _ => {}
        }
    }
    for i in 0..p.wfaults.len() {
        if p.wfaults[i].kind == WKind::Permanent {
            let mut q = p.clone();
            q.wfaults[i].kind = WKind::Transient;
            out.push(q);
        }
    }
    // simplify the medium
    let d = Medium::DEFAULT;
    macro_rules! knob {
        ($f:ident) => {
            if p.medium.$f != d.$f {
                let mut q = p.clone();
                q.medium.$f = d.$f;
                out.push(q);
            }
        };
    }
    knob!(key_form);
    knob!(nums);
    knob!(newtype);
    knob!(human_readable);
    knob!(size_hint);
    knob!(filter_fields);
    knob!(check_names);
    knob!(untyped);
    knob!(clean_end);
    if p.medium.framing == Framing::KeyedLenPrefixed {
        let mut q = p.clone();
        q.medium.framing = Framing::KeyedSelfDelim;
        out.push(q);
    }
    // simplify the value
    if let Some(e) = reg.iter().find(|e| e.name == p.ty) {
        let simple = simple_gen(&e.gen_kinds);
        if p.gen != simple {
            let mut q = p.clone();
            q.gen = simple.clone();
            out.push(q);
            for i in 0..p.gen.len().min(simple.len()) {
                if p.gen[i] != simple[i] {
                    let mut q = p.clone();
                    q.gen[i] = simple[i];
                    out.push(q);
                }
            }
        }
        if let Some(patch) = &p.patch {
            let kinds: Vec<(Kind, GenClass)> = e.leaf_kinds.iter().map(|k| (*k, GenClass::Any)).collect();
            let simple = simple_gen(&kinds);
            for i in 0..patch.len().min(simple.len()) {
                if patch[i] != simple[i] {
                    let mut q = p.clone();
                    q.patch.as_mut().unwrap()[i] = simple[i];
                    out.push(q);
                }
            }
        }
    }
    out
}

/// Greedy shrink: keep a candidate while the same assertion id still fails.
pub fn shrink(p: &Plan, assert_id: &str, reg: &[TypeEntry]) -> (Plan, u32) {
    let e = match reg.iter().find(|e| e.name == p.ty) {
        Some(e) => e,
        None => return (p.clone(), 0),
    };
    let mut cur = p.clone();
    let mut steps = 0;
    let mut budget = 2000;
    'outer: loop {
        for c in shrink_candidates(&cur, reg) {
            if budget == 0 {
                break 'outer;
            }
            budget -= 1;
            let o = e.run(&c, Default::default());
            if o.harness_error.is_none() && o.failure.as_ref().map(|f| f.assert_id) == Some(assert_id) {
                cur = c;
                steps += 1;
                continue 'outer;
            }
        }
        break;
    }
    (cur, steps)
}

// ---- byte lane ---------------------------------------------------------------------------------

use crate::bytes::{JPlan, JReader};

/// Seeded generator for the byte lane.
pub fn random_jplan(reg: &[TypeEntry], seed: u64, run: u64) -> JPlan {
    let mut rng = Rng::from_seed_run(seed ^ 0x4A53_4F4E_0000_0001, run);
    let dec: Vec<usize> = reg.iter().enumerate().filter(|(_, e)| e.is_dec).map(|(i, _)| i).collect();
    let ti = if rng.chance(45, 100) && !dec.is_empty() { dec[rng.usize_below(dec.len())] } else { rng.usize_below(reg.len()) };
    let e = &reg[ti];
    let style = [LeafStyle::SmallDistinct, LeafStyle::RandomBits, LeafStyle::Specials, LeafStyle::Mixed, LeafStyle::Typical][rng.usize_below(5)];
    let gen = if rng.chance(1, 5) { gen_coincident(&mut rng, e) } else { gen_leaves(&mut rng, &e.gen_kinds, style) };
    let mut p = JPlan::base(&e.name, gen);
    p.pretty = rng.chance(1, 4);
    p.reader = [JReader::Reader, JReader::Buffered, JReader::Slice, JReader::Str, JReader::Value, JReader::Flatten, JReader::Untagged, JReader::Containers][rng.usize_below(8)];
    // benign disk behaviour, drawn independently of the fault mode (swarm)
    if rng.chance(1, 3) {
        p.w_chunk = 1 + rng.below(7) as u16;
    }
    if rng.chance(1, 4) {
        p.w_eintr_every = 2 + rng.below(5) as u16;
    }
    if p.reader == JReader::Reader || p.reader == JReader::Buffered {
        if rng.chance(1, 3) {
            p.r_chunk = 1 + rng.below(7) as u16;
        }
        if rng.chance(1, 4) {
            p.r_eintr_every = 2 + rng.below(5) as u16;
        }
    }
    let probe = &e.probes[probe_index(&Medium::DEFAULT)];
    // text length of this value is not known before the write; the generator aims by fraction
    let len_guess = (e.json_len as u64).max(2) * if p.pretty { 3 } else { 1 };
    let mode = rng.below(100);
    if mode < 25 {
        if rng.chance(1, 3) {
            let kinds: Vec<(Kind, GenClass)> = e.leaf_kinds.iter().map(|k| (*k, GenClass::Any)).collect();
            let st = [LeafStyle::RandomBits, LeafStyle::Specials, LeafStyle::Mixed][rng.usize_below(3)];
            p.patch = Some(gen_leaves(&mut rng, &kinds, st));
        }
        p.escape_keys = rng.chance(1, 4);
        p.ws = rng.below(3) as u8;
    } else if mode < 45 {
        let w = (e.json_wcalls as u64).max(1) * if p.w_chunk > 0 { 2 } else { 1 };
        let step = match rng.below(10) {
            0 => 0,
            1 | 2 => w.saturating_sub(1 + rng.below(w.min(3))),
            _ => rng.below(w),
        } as u32;
        p.w_err = Some(WFault { step, kind: if rng.chance(1, 3) { WKind::Permanent } else { WKind::Transient } });
        p.retry = rng.chance(1, 4);
    } else if mode < 75 {
        let n = match rng.below(20) {
            0..=12 => 1,
            13..=17 => 2,
            _ => 3,
        };
        for _ in 0..n {
            if let Some(f) = gen_struct_fault(&mut rng, &probe.records, e.is_dec) {
                p.rfaults.push(f);
            }
        }
        p.escape_keys = rng.chance(1, 4);
        p.ws = rng.below(3) as u8;
        p.retry = rng.chance(1, 4);
    } else if mode < 90 {
        // the file ends early, or the read fails part-way
        let at = rng.below(len_guess + 2) as u32;
        if (p.reader == JReader::Reader || p.reader == JReader::Buffered) && rng.chance(1, 2) {
            p.r_err_at = Some(at);
        } else {
            p.trunc_at = Some(at);
        }
        if rng.chance(1, 3) {
            if let Some(f) = gen_struct_fault(&mut rng, &probe.records, e.is_dec) {
                p.rfaults.push(f);
            }
        }
        p.retry = rng.chance(1, 4);
    } else {
        p.flip = Some((rng.below(len_guess) as u32, rng.below(8) as u8));
        if rng.chance(1, 3) {
            p.rfaults.push(RFault::Reorder { path: vec![], perm: random_perm(&mut rng, probe.records.first().map(|r| r.1.len()).unwrap_or(0)) });
        }
    }
    p.in_place = p.reader != JReader::Value && rng.chance(1, 6);
    if rng.chance(1, 16) && p.w_err.is_none() && !probe.records.is_empty() {
        let (path, keys) = &probe.records[if e.is_dec && rng.chance(1, 2) { 0 } else { rng.usize_below(probe.records.len()) }];
        if !keys.is_empty() {
            let mut np = path.clone();
            np.push(rng.usize_below(keys.len()) as u8);
            p.null_field = Some(np);
            p.rfaults.clear();
            p.patch = None;
            p.trunc_at = None;
            p.flip = None;
            p.r_err_at = None;
        }
    }
    if (p.reader == JReader::Flatten || p.reader == JReader::Containers) && (p.trunc_at.is_some() || p.flip.is_some() || p.r_err_at.is_some()) {
        // the splice would move the byte offsets; damaged bytes go through the plain slice reader
        p.reader = JReader::Slice;
    }
    p
}

pub fn sweep_jplans(reg: &[TypeEntry]) -> Vec<JPlan> {
    let mut out = Vec::new();
    for e in reg {
        let gen = simple_gen(&e.gen_kinds);
        let base = JPlan::base(&e.name, gen.clone());
        // fault-free, every reader, compact and pretty, with and without benign disk behaviour
        for reader in [JReader::Reader, JReader::Slice, JReader::Str, JReader::Buffered, JReader::Value, JReader::Flatten, JReader::Untagged, JReader::Containers] {
            for pretty in [false, true] {
                let mut q = base.clone();
                q.reader = reader;
                q.pretty = pretty;
                out.push(q.clone());
                let mut qi = q.clone();
                qi.gen = e.identity_gen.clone();
                out.push(qi);
                q.w_chunk = 1;
                q.w_eintr_every = 2;
                if reader == JReader::Reader || reader == JReader::Buffered {
                    q.r_chunk = 3;
                    q.r_eintr_every = 3;
                }
                out.push(q);
            }
        }
        // every key of every record, once with `null` for its value, through every reader
        let recs = e.probes[probe_index(&Medium::DEFAULT)].records.clone();
        for (path, keys) in &recs {
            for i in 0..keys.len() as u8 {
                for reader in [JReader::Slice, JReader::Reader, JReader::Value, JReader::Flatten, JReader::Untagged, JReader::Containers] {
                    let mut np = path.clone();
                    np.push(i);
                    let mut q = base.clone();
                    q.reader = reader;
                    q.null_field = Some(np);
                    out.push(q.clone());
                    if reader == JReader::Slice {
                        q.in_place = true;
                        out.push(q);
                    }
                }
            }
        }
        // every write() call fails once / from then on
        for k in 0..e.json_wcalls {
            for kind in [WKind::Transient, WKind::Permanent] {
                let mut q = base.clone();
                q.w_err = Some(WFault { step: k, kind });
                q.retry = k == 0;
                out.push(q);
            }
        }
        // the file ends after every possible byte; the read fails at every possible byte
        for b in 0..e.json_len {
            let mut q = base.clone();
            q.trunc_at = Some(b);
            q.reader = if b % 2 == 0 { JReader::Reader } else { JReader::Slice };
            out.push(q);
            let mut q = base.clone();
            q.r_err_at = Some(b);
            q.reader = if b % 3 == 0 { JReader::Buffered } else { JReader::Reader };
            out.push(q);
        }
        if !e.is_dec {
            continue;
        }
        let p = &e.probes[probe_index(&Medium::DEFAULT)];
        let n = p.records.first().map(|r| r.1.len()).unwrap_or(0);
        if n == 0 || n > 4 {
            continue;
        }
        for (ri, reader) in [JReader::Reader, JReader::Slice, JReader::Str, JReader::Value, JReader::Flatten, JReader::Untagged, JReader::Containers].iter().enumerate() {
            for arr in arrangements(n) {
                let dropped: Vec<u8> = (0..n as u8).filter(|i| !arr.contains(i)).collect();
                let mut perm = arr.clone();
                perm.extend(dropped.iter().copied());
                let mut faults = vec![RFault::Reorder { path: vec![], perm }];
                if !dropped.is_empty() {
                    faults.push(RFault::Drop { path: vec![], idx: dropped.clone() });
                }
                let mut q = base.clone();
                q.reader = *reader;
                q.rfaults = faults.clone();
                q.escape_keys = ri == 1;
                q.ws = (ri % 3) as u8;
                out.push(q.clone());
                if ri < 3 {
                    let mut qi = q.clone();
                    qi.in_place = true;
                    out.push(qi);
                }
                if ri == 0 {
                    let keys = &p.records[0].1;
                    for (fi, f) in keys.iter().enumerate() {
                        for key in near_miss_keys(f) {
                            if keys.iter().any(|k| *k == key) {
                                continue;
                            }
                            let mut q2 = q.clone();
                            q2.rfaults.push(RFault::Unknown { path: vec![], pos: arr.len() as u8, key, val: UVal::CopyOf(fi as u8) });
                            out.push(q2);
                        }
                    }
                }
                for pos in 0..=arr.len() as u8 {
                    for (key, val) in [("rotation", UVal::CopyOf(1)), ("Scale", UVal::Num), ("", UVal::Unit)] {
                        let mut q2 = q.clone();
                        q2.rfaults.push(RFault::Unknown { path: vec![], pos, key: key.to_string(), val });
                        out.push(q2);
                    }
                }
            }
        }
        // every single stored bit flipped (compact text as written)
        for b in 0..e.json_len {
            for bit in 0..8u8 {
                let mut q = base.clone();
                q.flip = Some((b, bit));
                q.reader = JReader::Slice;
                out.push(q);
            }
        }
    }
    out
}

/// Candidates one shrinking step away from `cur` (byte lane), simplest first.
pub fn shrink_candidates_j(cur: &JPlan, reg: &[TypeEntry]) -> Vec<JPlan> {
    let mut cands: Vec<JPlan> = Vec::new();
    let simple = match reg.iter().find(|e| e.name == cur.ty) {
        Some(e) => simple_gen(&e.gen_kinds),
        None => return cands,
    };
    for i in 0..cur.rfaults.len() {
        let mut q = cur.clone();
        q.rfaults.remove(i);
        cands.push(q);
    }
    macro_rules! reset {
        ($f:ident, $v:expr) => {
            if cur.$f != $v {
                let mut q = cur.clone();
                q.$f = $v;
                cands.push(q);
            }
        };
    }
    reset!(retry, false);
    reset!(in_place, false);
    reset!(patch, None);
    reset!(w_err, None);
    reset!(trunc_at, None);
    reset!(r_err_at, None);
    reset!(flip, None);
    reset!(pretty, false);
    reset!(w_chunk, 0);
    reset!(w_eintr_every, 0);
    reset!(r_chunk, 0);
    reset!(r_eintr_every, 0);
    reset!(escape_keys, false);
    reset!(ws, 0);
    reset!(reader, JReader::Reader);
    if let Some(f) = cur.w_err {
        if f.kind == WKind::Permanent {
            let mut q = cur.clone();
            q.w_err = Some(WFault { step: f.step, kind: WKind::Transient });
            cands.push(q);
        }
    }
    if cur.gen != simple {
        let mut q = cur.clone();
        q.gen = simple.clone();
        cands.push(q);
        for i in 0..cur.gen.len().min(simple.len()) {
            if cur.gen[i] != simple[i] {
                let mut q = cur.clone();
                q.gen[i] = simple[i];
                cands.push(q);
            }
        }
    }
    cands
}

pub fn shrink_j(p: &JPlan, assert_id: &str, reg: &[TypeEntry]) -> (JPlan, u32) {
    let e = match reg.iter().find(|e| e.name == p.ty) {
        Some(e) => e,
        None => return (p.clone(), 0),
    };
    let mut cur = p.clone();
    let mut steps = 0;
    let mut budget = 2000;
    'outer: loop {
        for c in shrink_candidates_j(&cur, reg) {
            if budget == 0 {
                break 'outer;
            }
            budget -= 1;
            let o = e.run_json(&c, Default::default());
            if o.harness_error.is_none() && o.failure.as_ref().map(|f| f.assert_id) == Some(assert_id) {
                cur = c;
                steps += 1;
                continue 'outer;
            }
        }
        break;
    }
    (cur, steps)
}

// ---- white-box dictionary -----------------------------------------------------------------------

/// String literals found in the sources of the tree under test (comments skipped). Like a
/// fuzzer's dictionary: a key that the code compares against verbatim — an alias, an allow-listed
/// annotation such as "$schema" — cannot be guessed by mutation of the real field names, but it
/// has to be spelled out somewhere in the code. Deterministic: files in name order, literals
/// sorted and de-duplicated.
pub fn harvest_literals() -> Vec<String> {
    let dir = std::env::var("VERIF_REPO_SRC").unwrap_or_else(|_| "/repo/src".to_string());
    let mut files: Vec<std::path::PathBuf> = match std::fs::read_dir(&dir) {
        Ok(rd) => rd.filter_map(|e| e.ok()).map(|e| e.path()).filter(|p| p.extension().map(|x| x == "rs").unwrap_or(false)).collect(),
        Err(_) => return Vec::new(),
    };
    files.sort();
    let mut out: Vec<String> = Vec::new();
    for f in files {
        let text = match std::fs::read_to_string(&f) {
            Ok(t) => t,
            Err(_) => continue,
        };
        let b: Vec<char> = text.chars().collect();
        let mut i = 0;
        while i < b.len() {
            let c = b[i];
            if c == '/' && i + 1 < b.len() && b[i + 1] == '/' {
                while i < b.len() && b[i] != '\n' {
                    i += 1;
                }
                continue;
            }
            if c == '\'' {
                // char literal or lifetime: skip a short char literal so that '"' does not open a string
                if i + 2 < b.len() && b[i + 2] == '\'' {
                    i += 3;
                    continue;
                }
                if i + 3 < b.len() && b[i + 1] == '\\' && b[i + 3] == '\'' {
                    i += 4;
                    continue;
                }
            }
            if c == '"' {
                let mut s = String::new();
                i += 1;
                let mut ok = false;
                while i < b.len() {
                    let d = b[i];
                    if d == '\\' && i + 1 < b.len() {
                        let e = b[i + 1];
                        match e {
                            'n' => s.push('\n'),
                            't' => s.push('\t'),
                            'r' => s.push('\r'),
                            '0' => s.push('\0'),
                            '\\' => s.push('\\'),
                            '"' => s.push('"'),
                            '\'' => s.push('\''),
                            _ => {
                                s.push('\\');
                                s.push(e);
                            }
                        }
                        i += 2;
                        continue;
                    }
                    if d == '"' {
                        ok = true;
                        i += 1;
                        break;
                    }
                    s.push(d);
                    i += 1;
                }
                if ok && !s.is_empty() && s.chars().count() <= 32 && !s.contains('\n') {
                    out.push(s);
                }
                continue;
            }
            i += 1;
        }
    }
    // identifiers, too, of every file that carries hand-written serde code: a name can reach a key
    // comparison without ever being a string literal (`stringify!(translation)` in a macro)
    let mut files2: Vec<std::path::PathBuf> = match std::fs::read_dir(&dir) {
        Ok(rd) => rd.filter_map(|e| e.ok()).map(|e| e.path()).filter(|p| p.extension().map(|x| x == "rs").unwrap_or(false)).collect(),
        Err(_) => Vec::new(),
    };
    files2.sort();
    let mut idents: Vec<String> = Vec::new();
    for f in files2 {
        let text = match std::fs::read_to_string(&f) {
            Ok(t) => t,
            Err(_) => continue,
        };
        let hand_written = text.contains("Deserialize<") && text.contains("impl") && (text.contains("Visitor") || text.contains("fn deserialize") || text.contains("fn serialize"));
        if !hand_written {
            continue;
        }
        let mut cur = String::new();
        let mut in_comment = false;
        let b: Vec<char> = text.chars().collect();
        let mut i = 0;
        while i <= b.len() {
            let c = if i < b.len() { b[i] } else { ' ' };
            if !in_comment && c == '/' && i + 1 < b.len() && b[i + 1] == '/' {
                in_comment = true;
            }
            if c == '\n' {
                in_comment = false;
            }
            if !in_comment && (c.is_alphanumeric() || c == '_') {
                cur.push(c);
            } else {
                if cur.len() >= 2 && cur.len() <= 24 && !cur.chars().next().unwrap().is_numeric() {
                    idents.push(cur.clone());
                }
                cur.clear();
            }
            i += 1;
        }
    }
    idents.sort();
    idents.dedup();
    idents.truncate(600);
    out.extend(idents);
    out.sort();
    out.dedup();
    out.truncate(2600);
    out
}

static HARVEST: std::sync::OnceLock<Vec<String>> = std::sync::OnceLock::new();

pub fn harvested() -> &'static [String] {
    HARVEST.get_or_init(harvest_literals)
}

static HARVEST_CHARS: std::sync::OnceLock<Vec<char>> = std::sync::OnceLock::new();

/// Char literals ('x') found in the sources of the tree under test, sorted and de-duplicated.
pub fn harvested_chars() -> &'static [char] {
    HARVEST_CHARS.get_or_init(|| {
        let dir = std::env::var("VERIF_REPO_SRC").unwrap_or_else(|_| "/repo/src".to_string());
        let mut files: Vec<std::path::PathBuf> = match std::fs::read_dir(&dir) {
            Ok(rd) => rd.filter_map(|e| e.ok()).map(|e| e.path()).filter(|p| p.extension().map(|x| x == "rs").unwrap_or(false)).collect(),
            Err(_) => return Vec::new(),
        };
        files.sort();
        let mut out = Vec::new();
        for f in files {
            if let Ok(text) = std::fs::read_to_string(&f) {
                let b: Vec<char> = text.chars().collect();
                for i in 0..b.len().saturating_sub(2) {
                    if b[i] == '\'' && b[i + 2] == '\'' && b[i + 1] != '\\' && (i == 0 || !b[i - 1].is_alphanumeric()) {
                        out.push(b[i + 1]);
                    }
                }
            }
        }
        out.sort();
        out.dedup();
        out.truncate(64);
        out
    })
}
