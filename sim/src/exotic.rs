//! Exotic lane: `Decomposed<V, R>` is generic, and its hand-written serde impls must hold for every
//! `V`/`R` a user can plug in — not only for cgmath's own vectors and rotations. This lane is a
//! fixed, deterministic enumeration (no PRNG): for a list of instantiations whose parts come from
//! outside cgmath (std types, tuples, arrays, options, enums, maps, a user-defined vector space, a
//! struct whose own field names collide with `scale`/`rot`/`disp`, a nested Decomposed), it runs
//! the same schedules as the main sweep — every field order, every omission, unknown keys at every
//! position, every single write fault and read error — on the event-level medium in several
//! configurations and through real serde_json. Values are compared with `==` and by their `Debug`
//! text (which tells -0.0 from 0.0).

use crate::medium::*;
use crate::node::Node;
use crate::source::*;
use crate::store::Store;
use cgmath::*;
use serde::{Deserialize, Serialize};
use std::collections::BTreeMap;
use std::fmt::Debug;
use std::marker::PhantomData;
use std::num::Wrapping;
use std::ops::{Add, Div, Mul, Rem, Sub};
use std::panic::{catch_unwind, AssertUnwindSafe};

#[derive(Clone, Debug)]
pub struct ExoticFailure {
    pub case: String,
    pub scenario: String,
    pub assert_id: &'static str,
    pub observed: String,
}

#[derive(Default)]
pub struct ExoticReport {
    pub cases: u64,
    pub evaluations: u64,
    pub failures: Vec<ExoticFailure>,
    pub case_names: Vec<String>,
}

// ---- types from outside cgmath ----------------------------------------------------------------

#[cfg(feature = "exotic-user-types")]
pub use user_types::*;

#[cfg(feature = "exotic-user-types")]
mod user_types {
use super::*;

/// A user's own vector space.
#[derive(Copy, Clone, Debug, PartialEq, Serialize, Deserialize)]
pub struct UserVec {
    pub a: f64,
    pub b: f64,
}
impl Zero for UserVec {
    fn zero() -> Self {
        UserVec { a: 0.0, b: 0.0 }
    }
    fn is_zero(&self) -> bool {
        self.a == 0.0 && self.b == 0.0
    }
}
impl Add for UserVec {
    type Output = UserVec;
    fn add(self, o: UserVec) -> UserVec {
        UserVec { a: self.a + o.a, b: self.b + o.b }
    }
}
impl Sub for UserVec {
    type Output = UserVec;
    fn sub(self, o: UserVec) -> UserVec {
        UserVec { a: self.a - o.a, b: self.b - o.b }
    }
}
impl Mul<f64> for UserVec {
    type Output = UserVec;
    fn mul(self, s: f64) -> UserVec {
        UserVec { a: self.a * s, b: self.b * s }
    }
}
impl Div<f64> for UserVec {
    type Output = UserVec;
    fn div(self, s: f64) -> UserVec {
        UserVec { a: self.a / s, b: self.b / s }
    }
}
impl Rem<f64> for UserVec {
    type Output = UserVec;
    fn rem(self, s: f64) -> UserVec {
        UserVec { a: self.a % s, b: self.b % s }
    }
}
impl std::iter::Sum for UserVec {
    fn sum<I: Iterator<Item = UserVec>>(iter: I) -> UserVec {
        iter.fold(UserVec::zero(), |x, y| x + y)
    }
}
impl VectorSpace for UserVec {
    type Scalar = f64;
}

/// A user's own scalar whose order is genuinely partial: a closed interval. Two intervals that
/// overlap are neither less, equal nor greater — `partial_cmp` is `None` for perfectly finite
/// values, not only for NaN.
#[derive(Copy, Clone, Debug, PartialEq, Serialize, Deserialize)]
pub struct Interval {
    pub lo: f64,
    pub hi: f64,
}
impl Interval {
    pub fn new(lo: f64, hi: f64) -> Interval {
        Interval { lo, hi }
    }
}
impl PartialOrd for Interval {
    fn partial_cmp(&self, o: &Interval) -> Option<std::cmp::Ordering> {
        if self == o {
            Some(std::cmp::Ordering::Equal)
        } else if self.hi < o.lo {
            Some(std::cmp::Ordering::Less)
        } else if self.lo > o.hi {
            Some(std::cmp::Ordering::Greater)
        } else {
            None
        }
    }
}
macro_rules! interval_op {
    ($tr:ident, $m:ident, $tra:ident, $ma:ident, $op:tt) => {
        impl std::ops::$tr for Interval {
            type Output = Interval;
            fn $m(self, o: Interval) -> Interval {
                Interval { lo: self.lo $op o.lo, hi: self.hi $op o.hi }
            }
        }
        impl std::ops::$tra for Interval {
            fn $ma(&mut self, o: Interval) {
                *self = *self $op o;
            }
        }
    };
}
interval_op!(Add, add, AddAssign, add_assign, +);
interval_op!(Sub, sub, SubAssign, sub_assign, -);
interval_op!(Mul, mul, MulAssign, mul_assign, *);
interval_op!(Div, div, DivAssign, div_assign, /);
interval_op!(Rem, rem, RemAssign, rem_assign, %);
impl Zero for Interval {
    fn zero() -> Self {
        Interval { lo: 0.0, hi: 0.0 }
    }
    fn is_zero(&self) -> bool {
        self.lo == 0.0 && self.hi == 0.0
    }
}
impl One for Interval {
    fn one() -> Self {
        Interval { lo: 1.0, hi: 1.0 }
    }
}
impl cgmath::num_traits::Num for Interval {
    type FromStrRadixErr = ();
    fn from_str_radix(_s: &str, _r: u32) -> Result<Self, ()> {
        Err(())
    }
}

} // mod user_types

/// A user's own rotation representation.
#[derive(Clone, Debug, PartialEq, Serialize, Deserialize)]
pub enum UserRot {
    Identity,
    Axis { x: f32 },
    Euler(f32, f32, f32),
    Turn(u8),
}

/// A payload whose own field names collide with the parent's.
#[derive(Clone, Debug, PartialEq, Serialize, Deserialize)]
pub struct Collide {
    pub rot: f32,
    pub disp: f32,
    pub scale: f32,
}

// ---- the schedules ---------------------------------------------------------------------------

fn same<T: PartialEq + Debug>(a: &T, b: &T) -> bool {
    a == b && format!("{:?}", a) == format!("{:?}", b)
}

fn has_other(n: &Node) -> bool {
    match n {
        Node::Other(_) => true,
        Node::Some(x) | Node::Newtype { inner: x, .. } => has_other(x),
        Node::Struct { entries, .. } => entries.iter().any(|(_, v)| has_other(v)),
        Node::Map { entries, .. } => entries.iter().any(|(k, v)| has_other(k) || has_other(v)),
        Node::Seq { items, .. } => items.iter().any(has_other),
        _ => false,
    }
}

const PERMS: [[u8; 3]; 6] = [[0, 1, 2], [0, 2, 1], [1, 0, 2], [1, 2, 0], [2, 0, 1], [2, 1, 0]];

fn media() -> Vec<(&'static str, Medium)> {
    let d = Medium::DEFAULT;
    vec![
        ("default", d),
        ("owned-keys-lower-hint", Medium { key_form: KeyForm::String, size_hint: SizeHint::Lower, ..d }),
        ("len-prefixed-widened", Medium { framing: Framing::KeyedLenPrefixed, nums: NumDelivery::Widened, size_hint: SizeHint::Exact, ..d }),
        ("strict-names-wrapped", Medium { check_names: true, newtype: NewtypeMode::Wrapped, human_readable: false, ..d }),
        ("flatten-like", Medium { filter_fields: true, key_form: KeyForm::Borrowed, ..d }),
    ]
}

struct Ctx<'a> {
    case: &'a str,
    rep: &'a mut ExoticReport,
}

impl<'a> Ctx<'a> {
    fn eval(&mut self) {
        self.rep.evaluations += 1;
    }
    fn fail(&mut self, scenario: String, assert_id: &'static str, observed: String) {
        self.rep.failures.push(ExoticFailure { case: self.case.to_string(), scenario, assert_id, observed });
    }
}

/// Everything the schedules need from one concrete instantiation. Implemented by macro for
/// concrete types only: generic code here would have to *prove* `Decomposed<V, R>: Serialize` from
/// cgmath's own where-clauses and would stop compiling when a change to cgmath adds a bound.
pub trait Exo: Sized + Debug + PartialEq {
    fn ser(&self, st: &mut Store) -> Result<(), SimError>;
    fn de<'de>(d: De<'de>) -> Result<Self, SimError>;
    fn json(&self) -> Result<String, String>;
    fn json_pretty(&self) -> Result<Vec<u8>, String>;
    fn from_str(s: &str) -> Result<Self, String>;
    fn from_reader(b: &[u8]) -> Result<Self, String>;
    fn from_slice(b: &[u8]) -> Result<Self, String>;
    fn via_value(&self) -> Result<Self, String>;
    /// JSON text of scale, rot, disp on their own
    fn parts(&self) -> Result<[String; 3], String>;
}

macro_rules! exo {
    ($($t:ty),+ $(,)?) => {
        $(impl Exo for $t {
            fn ser(&self, st: &mut Store) -> Result<(), SimError> {
                self.serialize(st)
            }
            fn de<'de>(d: De<'de>) -> Result<Self, SimError> {
                <$t as Deserialize>::deserialize(d)
            }
            fn json(&self) -> Result<String, String> {
                serde_json::to_string(self).map_err(|e| e.to_string())
            }
            fn json_pretty(&self) -> Result<Vec<u8>, String> {
                serde_json::to_vec_pretty(self).map_err(|e| e.to_string())
            }
            fn from_str(s: &str) -> Result<Self, String> {
                serde_json::from_str(s).map_err(|e| e.to_string())
            }
            fn from_reader(b: &[u8]) -> Result<Self, String> {
                serde_json::from_reader(b).map_err(|e| e.to_string())
            }
            fn from_slice(b: &[u8]) -> Result<Self, String> {
                serde_json::from_slice(b).map_err(|e| e.to_string())
            }
            fn via_value(&self) -> Result<Self, String> {
                serde_json::to_value(self).and_then(serde_json::from_value).map_err(|e| e.to_string())
            }
            fn parts(&self) -> Result<[String; 3], String> {
                Ok([
                    serde_json::to_string(&self.scale).map_err(|e| e.to_string())?,
                    serde_json::to_string(&self.rot).map_err(|e| e.to_string())?,
                    serde_json::to_string(&self.disp).map_err(|e| e.to_string())?,
                ])
            }
        })+
    };
}

exo!(
    Decomposed<Vector3<f64>, [f64; 4]>,
    Decomposed<Vector2<f32>, (f32, f64)>,
    Decomposed<Vector3<f32>, String>,
    Decomposed<Vector3<f64>, Option<Quaternion<f64>>>,
    Decomposed<Vector2<f64>, UserRot>,
    Decomposed<Vector3<f64>, Collide>,
    Decomposed<Vector2<f64>, Vec<u8>>,
    Decomposed<Vector3<f32>, bool>,
    Decomposed<Vector3<f32>, char>,
    Decomposed<Vector3<f32>, ()>,
    Decomposed<Vector3<f64>, u128>,
    Decomposed<Vector3<f64>, i128>,
    Decomposed<Vector3<f64>, u64>,
    Decomposed<Vector2<f32>, BTreeMap<String, f32>>,
    Decomposed<Vector3<f32>, Box<Matrix2<f32>>>,
    Decomposed<Vector3<f64>, Wrapping<i32>>,
    Decomposed<Vector3<f64>, PhantomData<u8>>,
    Decomposed<Vector3<f64>, Decomposed<Vector2<f32>, Basis2<f32>>>,
    Decomposed<Vector1<f64>, Vector3<Rad<f32>>>,
    Decomposed<Vector3<i64>, Quaternion<i64>>,
    Decomposed<Vector2<u64>, (u8, i8)>,
);

#[cfg(feature = "exotic-user-types")]
exo!(
    Decomposed<UserVec, Quaternion<f64>>,
    Decomposed<UserVec, UserRot>,
    Decomposed<Vector3<Interval>, Quaternion<Interval>>,
);

fn read_event<T: Exo>(m: Medium, root: &Node, rf: &[RFault]) -> (Result<T, String>, Vec<FiredR>) {
    let unknown_vals: Vec<Node> = rf
        .iter()
        .map(|f| match f {
            RFault::Unknown { path, val, .. } => unknown_value_node(*val, node_at(root, path)),
            _ => Node::Unit,
        })
        .collect();
    let env = ReadEnv::new(m, root, rf, &unknown_vals, false);
    let r = catch_unwind(AssertUnwindSafe(|| T::de(env.de())));
    let res = match r {
        Ok(Ok(v)) => Ok(v),
        Ok(Err(e)) => Err(e.to_string()),
        Err(_) => Err("PANIC".to_string()),
    };
    let st = env.st.into_inner();
    (res, st.fired)
}

fn case<T: Exo>(name: &str, val: T, rep: &mut ExoticReport, only: Option<&str>) {
    if let Some(o) = only {
        if o != name {
            return;
        }
    }
    rep.cases += 1;
    rep.case_names.push(name.to_string());
    let rot_is_option = name.starts_with("rot=Some") || name.starts_with("rot=None");
    let mut cx = Ctx { case: name, rep };

    // ---------------- event-level medium ----------------
    for (mname, m) in media() {
        let mut st = Store::new(m, &[]);
        let w = catch_unwind(AssertUnwindSafe(|| val.ser(&mut st)));
        cx.eval();
        let wsteps = st.steps();
        let saw_enum = st.saw_enum;
        let root = match (w, st.root.take()) {
            (Ok(Ok(())), Some(r)) => r,
            (w, _) => {
                cx.fail(format!("{}: fault-free write", mname), "A1", format!("serialize did not leave a record: {:?}", w.map(|r| r.map_err(|e| e.to_string()))));
                continue;
            }
        };
        // A2: exactly the three public field names at the top (a skipped-then-written or a
        // skipped-and-missing field shows up here)
        cx.eval();
        let keys: Vec<&str> = match &root {
            Node::Struct { entries, .. } => entries.iter().map(|e| e.0.as_str()).collect(),
            _ => vec![],
        };
        let mut sorted = keys.clone();
        sorted.sort();
        if sorted != ["disp", "rot", "scale"] {
            cx.fail(format!("{}: structure", mname), "A2", format!("top-level keys written (incl. skip_field calls): {:?}", keys));
            continue;
        }
        if saw_enum || has_other(&root) {
            // enum variants / 128-bit values too wide for this medium: byte lane only
            continue;
        }
        // A1
        cx.eval();
        let (r, _) = read_event::<T>(m, &root, &[]);
        let mut rsteps = 0u32;
        match &r {
            Ok(v2) if same(v2, &val) => {}
            other => cx.fail(format!("{}: fault-free round trip", mname), "A1", format!("{:?}", other)),
        }
        {
            // count read steps of the fault-free read
            let env = ReadEnv::new(m, &root, &[], &[], false);
            let _ = catch_unwind(AssertUnwindSafe(|| T::de(env.de()).map(|_| ())));
            rsteps = rsteps.max(env.st.borrow().step);
        }
        // A3: every order
        for p in PERMS {
            cx.eval();
            let rf = [RFault::Reorder { path: vec![], perm: p.to_vec() }];
            let (r, _) = read_event::<T>(m, &root, &rf);
            match &r {
                Ok(v2) if same(v2, &val) => {}
                other => cx.fail(format!("{}: order {:?}", mname, p), "A3", format!("{:?}", other)),
            }
        }
        // A4: every omission — also when the absent field's type could be built from nothing (unit,
        // PhantomData): the statement says "rejected, rather than silently defaulted". The one
        // exception is an `Option` rotation: serde's own convention (serde_derive) reads an absent
        // `Option` field as None, an Option is not a rotation, and a derive-based Decomposed — a
        // legitimate rewrite — would do exactly that.
        for mask in 1u8..8 {
            if rot_is_option && mask & 0b010 != 0 {
                continue;
            }
            cx.eval();
            let idx: Vec<u8> = (0..3u8).filter(|i| mask & (1 << i) != 0).collect();
            let rf = [RFault::Drop { path: vec![], idx: idx.clone() }];
            let (r, _) = read_event::<T>(m, &root, &rf);
            if let Ok(v2) = &r {
                cx.fail(format!("{}: entries {:?} never delivered", mname, idx), "A4", format!("Ok({:?})", v2));
            }
        }
        // A5: an unknown key at every position (the flatten-like medium withholds it by design)
        if !m.filter_fields {
            for pos in 0..4u8 {
                for (key, uv) in [("extra", UVal::Num), ("rot\0", UVal::CopyOf(1)), ("Scale", UVal::CopyOf(0)), ("disp ", UVal::CopyOf(2))] {
                    cx.eval();
                    let rf = [RFault::Unknown { path: vec![], pos, key: key.to_string(), val: uv }];
                    let (r, _) = read_event::<T>(m, &root, &rf);
                    if let Ok(v2) = &r {
                        cx.fail(format!("{}: unknown key {:?} at position {}", mname, key, pos), "A5", format!("Ok({:?})", v2));
                    }
                }
            }
        }
        // A6: every single write fault
        for k in 0..wsteps {
            for kind in [WKind::Transient, WKind::Permanent] {
                cx.eval();
                let wf = [WFault { step: k, kind }];
                let mut st = Store::new(m, &wf);
                let w = catch_unwind(AssertUnwindSafe(|| val.ser(&mut st)));
                if let Ok(Ok(())) = w {
                    let whole = match st.root.take() {
                        Some(r2) if st.dangling() == 0 => matches!(read_event::<T>(m, &r2, &[]).0, Ok(ref v2) if same(v2, &val)),
                        _ => false,
                    };
                    if !whole {
                        cx.fail(format!("{}: write step {} fails ({:?})", mname, k, kind), "A6", "serialize returned Ok but the medium does not hold the value".to_string());
                    }
                }
            }
        }
        // A7: every single read error
        for k in 0..rsteps {
            cx.eval();
            let rf = [RFault::Err { step: k, permanent: false }];
            let (r, fired) = read_event::<T>(m, &root, &rf);
            let before_all = fired.iter().any(|f| f.top_done & 0b111 != 0b111);
            match &r {
                Ok(v2) if before_all => cx.fail(format!("{}: read step {} fails before all fields arrived", mname, k), "A7", format!("Ok({:?})", v2)),
                Ok(v2) if !same(v2, &val) => cx.fail(format!("{}: read step {} fails", mname, k), "A9", format!("Ok({:?})", v2)),
                _ => {}
            }
        }
    }

    // ---------------- real serde_json ----------------
    cx.eval();
    let (ts, tr, td, text) = match (val.parts(), val.json()) {
        (Ok([a, b, c]), Ok(t)) => (a, b, c, t),
        other => {
            cx.fail("json: to_string".to_string(), "A1", format!("{:?}", other));
            return;
        }
    };
    let check_ok = |cx: &mut Ctx, what: String, id: &'static str, r: Result<T, String>| {
        cx.eval();
        match &r {
            Ok(v2) if same(v2, &val) => {}
            other => cx.fail(what, id, format!("{:?}", other)),
        }
    };
    check_ok(&mut cx, "json: from_str of to_string".into(), "A1", T::from_str(&text));
    check_ok(&mut cx, "json: from_reader of to_string".into(), "A1", T::from_reader(text.as_bytes()));
    check_ok(&mut cx, "json: from_slice of to_vec_pretty".into(), "A1", val.json_pretty().and_then(|b| T::from_slice(&b)));
    // (serde_json::Value cannot hold 128-bit integers for any type)
    if !text.contains("340282366920938463463374607431768211455") && !text.contains("-170141183460469231731687303715884105728") {
        check_ok(&mut cx, "json: from_value of to_value".into(), "A1", val.via_value());
    }
    let fields = [("scale", ts.as_str()), ("rot", tr.as_str()), ("disp", td.as_str())];
    for p in PERMS {
        let t = format!("{{{}}}", p.iter().map(|i| format!("\"{}\":{}", fields[*i as usize].0, fields[*i as usize].1)).collect::<Vec<_>>().join(","));
        check_ok(&mut cx, format!("json: order {:?}: {}", p, t), "A3", T::from_str(&t));
        // an unknown key in front, in the middle, at the end
        for pos in 0..4usize {
            let mut items: Vec<String> = p.iter().map(|i| format!("\"{}\":{}", fields[*i as usize].0, fields[*i as usize].1)).collect();
            items.insert(pos, format!("\"rotation\":{}", tr));
            let t = format!("{{{}}}", items.join(","));
            cx.eval();
            if let Ok(v2) = T::from_str(&t) {
                cx.fail(format!("json: unknown key at {}: {}", pos, t), "A5", format!("Ok({:?})", v2));
            }
        }
    }
    for mask in 1u8..8 {
        if rot_is_option && mask & 0b010 != 0 {
            continue;
        }
        let t = format!(
            "{{{}}}",
            (0..3).filter(|i| mask & (1 << i) == 0).map(|i| format!("\"{}\":{}", fields[i].0, fields[i].1)).collect::<Vec<_>>().join(",")
        );
        cx.eval();
        if let Ok(v2) = T::from_str(&t) {
            cx.fail(format!("json: omission mask {:03b}: {}", mask, t), "A4", format!("Ok({:?})", v2));
        }
    }
    // every truncation of the text is an error
    for cut in 0..text.len() {
        if !text.is_char_boundary(cut) {
            continue;
        }
        cx.eval();
        if let Ok(v2) = T::from_str(&text[..cut]) {
            cx.fail(format!("json: text cut after {} bytes", cut), "A7", format!("Ok({:?})", v2));
        }
    }
}

pub fn run_all(only: Option<&str>) -> ExoticReport {
    let mut rep = ExoticReport::default();
    let v3 = Vector3::new(1.5f64, -0.0, 5e-324);
    let v3f = Vector3::new(1.5f32, -0.0, 1e-45);
    let v2 = Vector2::new(-7.25f64, 0.1);
    let v2f = Vector2::new(-7.25f32, 0.1);
    macro_rules! c {
        ($name:expr, $scale:expr, $rot:expr, $disp:expr) => {
            case($name, Decomposed { scale: $scale, rot: $rot, disp: $disp }, &mut rep, only)
        };
    }
    c!("rot=[f64;4]", 2.0f64, [0.5f64, -0.0, 1e300, 3.0], v3);
    c!("rot=(f32,f64)", 0.5f32, (1.0f32, 2.5f64), v2f);
    c!("rot=String", 1.0f32, "h\u{e9}llo \"rot\" \\ \n".to_string(), v3f);
    c!("rot=Some(Quaternion)", 3.0f64, Some(Quaternion::new(1.0f64, 2.0, 3.0, -0.0)), v3);
    c!("rot=None", 3.0f64, None::<Quaternion<f64>>, v3);
    c!("rot=UserRot::Identity", 1.0f64, UserRot::Identity, v2);
    c!("rot=UserRot::Axis", 1.0f64, UserRot::Axis { x: 0.25 }, v2);
    c!("rot=UserRot::Euler", 1.0f64, UserRot::Euler(1.0, -2.0, 3.5), v2);
    c!("rot=UserRot::Turn", 1.0f64, UserRot::Turn(200), v2);
    c!("rot=Collide{rot,disp,scale}", 4.0f64, Collide { rot: 1.0, disp: 2.0, scale: 3.0 }, v3);
    c!("rot=Vec<u8>", 1.0f64, vec![0u8, 255, 7], v2);
    c!("rot=empty Vec", 1.0f64, Vec::<u8>::new(), v2);
    c!("rot=bool", 1.0f32, true, v3f);
    c!("rot=char", 1.0f32, '\u{1F600}', v3f);
    c!("rot=()", 1.0f32, (), v3f);
    c!("rot=u128::MAX", 1.0f64, u128::MAX, v3);
    c!("rot=i128::MIN", 1.0f64, i128::MIN, v3);
    c!("rot=u64::MAX", 1.0f64, u64::MAX, v3);
    c!("rot=BTreeMap", 1.0f32, [("rot".to_string(), 1.0f32), ("x".to_string(), -0.0)].into_iter().collect::<BTreeMap<String, f32>>(), v2f);
    c!("rot=Box<Matrix2>", 1.0f32, Box::new(Matrix2::new(1.0f32, 2.0, 3.0, 4.0)), v3f);
    c!("rot=Wrapping<i32>", 1.0f64, Wrapping(-5i32), v3);
    c!("rot=PhantomData", 1.0f64, PhantomData::<u8>, v3);
    c!("rot=nested Decomposed", 2.0f64, Decomposed { scale: 0.5f32, rot: Basis2::from_angle(Rad(0.5f32)), disp: Vector2::new(1.0f32, 2.0) }, v3);
    c!("rot=Vector3<Rad<f32>>", 1.0f64, Vector3::new(Rad(0.5f32), Rad(-0.0), Rad(3.0)), Vector1::new(9.0f64));
    c!("scale=i64::MIN", i64::MIN, Quaternion::new(1i64, 2, 3, 4), Vector3::new(i64::MAX, -1, 0));
    c!("scale=u64::MAX", u64::MAX, (1u8, -2i8), Vector2::new(u64::MAX, 0));
    #[cfg(feature = "exotic-user-types")]
    user_cases(&mut rep, only);
    rep
}

/// Cases whose scalar / vector space is defined in the harness itself (see Cargo.toml on why they
/// can be compiled out).
#[cfg(feature = "exotic-user-types")]
fn user_cases(rep: &mut ExoticReport, only: Option<&str>) {
    macro_rules! c {
        ($name:expr, $scale:expr, $rot:expr, $disp:expr) => {
            case($name, Decomposed { scale: $scale, rot: $rot, disp: $disp }, rep, only)
        };
    }
    c!("disp=UserVec", 1.0f64, Quaternion::new(0.5f64, 0.5, 0.5, 0.5), UserVec { a: -0.0, b: 1e-310 });
    c!("disp=UserVec,rot=UserRot", 0.125f64, UserRot::Euler(0.0, 0.5, -0.0), UserVec { a: 3.0, b: 4.0 });
    // a user scalar with a partial order: scale and components that are unordered w.r.t. zero / each other
    let iv = Interval::new;
    c!(
        "scalar=Interval straddling zero",
        iv(-1.0, 2.0),
        Quaternion::new(iv(0.5, 0.75), iv(-0.0, 0.0), iv(-3.0, -2.0), iv(1e-310, 1.0)),
        Vector3::new(iv(-5.0, 5.0), iv(1.0, 1.0), iv(-0.0, 7.0))
    );
    c!(
        "scalar=Interval away from zero",
        iv(2.0, 3.0),
        Quaternion::new(iv(1.0, 1.0), iv(2.0, 2.5), iv(3.0, 3.5), iv(4.0, 4.5)),
        Vector3::new(iv(5.0, 6.0), iv(7.0, 8.0), iv(9.0, 10.0))
    );
}
