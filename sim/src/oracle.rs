//! One simulated run: write a value through the faulty medium, read it back through the faulty
//! medium, and evaluate the assertion the property puts on *that* execution.
//!
//! Assertion ids (DESIGN.md §2.5):
//!   A1  fault-free round trip is bit-exact
//!   A2  the write history names components by their public field names; angles are bare numbers
//!   A3  Decomposed accepts its three fields in any order
//!   A4  Decomposed with a top-level field missing is rejected
//!   A5  Decomposed with an unknown top-level field is rejected
//!   A6  a write acknowledged with Ok is complete on the medium
//!   A7  a Decomposed field that never arrived (read error / truncation) is not invented
//!   A8  (byte lane) on bit-flipped text Decomposed's impl agrees with its derive+deny_unknown_fields mirror
//!   A9  whatever else happened: Ok never carries a value that was not delivered for that field
//!   AP  a stored record whose leaves are arbitrary finite bit patterns reads back bit-exact
//!   AR  once faults stop, the next attempt succeeds

use crate::medium::*;
use crate::node::*;
use crate::rng::Fnv;
use crate::source::*;
use crate::store::*;
use crate::subject::*;
use serde::{Deserialize, Serialize};
use std::panic::{catch_unwind, AssertUnwindSafe};

pub const ASSERT_IDS: [&str; 11] = ["A1", "A2", "A3", "A4", "A5", "A6", "A7", "A8", "A9", "AP", "AR"];

pub fn assert_index(id: &str) -> usize {
    ASSERT_IDS.iter().position(|x| *x == id).unwrap_or(0)
}

#[derive(Clone, Debug, PartialEq, Serialize, Deserialize)]
pub struct Plan {
    /// type under test, by registry name
    pub ty: String,
    /// generator leaves (raw bits); the value is built from these through public constructors
    pub gen: Vec<u64>,
    /// if set, the stored record's leaves are overwritten (model order) before the read:
    /// "restart and read a record some earlier process wrote"
    pub patch: Option<Vec<u64>>,
    pub medium: Medium,
    pub wfaults: Vec<WFault>,
    pub rfaults: Vec<RFault>,
    /// after a faulted attempt, make one fault-free attempt with the same value
    pub retry: bool,
    /// read through `Deserialize::deserialize_in_place` into an existing (different) value
    /// instead of `Deserialize::deserialize` — what `Vec<T>`/`Option<T>` do when they reuse storage
    #[serde(default)]
    pub in_place: bool,
    /// the value of this entry (path of entry indices from the root record) arrives as null /
    /// unit: the key is there, its data is not. Judged on its own (no other read fault applies).
    #[serde(default)]
    pub null_field: Option<Vec<u8>>,
}

#[derive(Clone, Debug, PartialEq)]
pub struct Failure {
    pub assert_id: &'static str,
    pub observed: String,
}

#[derive(Default, Clone, Debug)]
pub struct Outcome {
    /// a `null_field` was applied and judged
    pub nulled: bool,
    pub failure: Option<Failure>,
    pub harness_error: Option<String>,
    pub evaluated: [u32; ASSERT_IDS.len()],
    pub wsteps: u32,
    pub rsteps: u32,
    pub wfired: Vec<FiredW>,
    pub rfired: Vec<FiredR>,
    /// structural read faults of the plan that were applied to an opened record, by plan index
    pub applied: Vec<bool>,
    pub write_ok: Option<bool>,
    pub read_ok: Option<bool>,
    pub log_hash: u64,
    pub sig: u64,
    pub nontrivial: bool,
    /// delivered order of the top-level record (original indices; 0x80|i for injected entries)
    pub top_order: Vec<u8>,
    pub detail: Option<RunDetail>,
    /// byte lane only
    pub jstats: JStats,
}

/// Byte-lane fault counters: what actually fired in this run.
#[derive(Default, Clone, Copy, Debug)]
pub struct JStats {
    pub w_short: u32,
    pub w_eintr: u32,
    pub r_short: u32,
    pub r_eintr: u32,
    pub r_ioerr: u32,
    pub trunc: u32,
    pub flip: u32,
    pub format_lossy: bool,
    pub is_json: bool,
    pub escaped_keys: bool,
    pub reader: u8,
}

/// Filled only when tracing (replay / samples).
#[derive(Clone, Debug, Default)]
pub struct RunDetail {
    pub value: String,
    pub stored: String,
    pub write_result: String,
    pub read_result: String,
    pub wtrace: Vec<(WStep, u8)>,
    pub rtrace: Vec<(RStep, u8)>,
    /// keyed records of the stored tree: (path, keys)
    pub records: Vec<(Vec<u8>, Vec<String>)>,
    /// byte lane: length of the text cgmath wrote
    pub json_len: u32,
}

#[derive(Clone, Copy, Default)]
pub struct RunOpts {
    pub trace: bool,
}

fn num_equal(kind_a: Kind, a: u64, kind_b: Kind, b: u64) -> bool {
    if kind_a == kind_b {
        return a == b;
    }
    let fa = kind_a.is_float();
    let fb = kind_b.is_float();
    if fa != fb || kind_a == Kind::Bool || kind_b == Kind::Bool {
        return false;
    }
    if fa {
        let wa = if kind_a == Kind::F32 { (f32::from_bits(a as u32) as f64).to_bits() } else { a };
        let wb = if kind_b == Kind::F32 { (f32::from_bits(b as u32) as f64).to_bits() } else { b };
        wa == wb
    } else {
        match (crate::node::int_value(kind_a, a), crate::node::int_value(kind_b, b)) {
            (Some(x), Some(y)) => x == y,
            _ => false,
        }
    }
}

/// A2: compare what reached the medium with the model. On success returns, for every model leaf,
/// the path of record-entry indices leading to it in the stored tree.
pub fn check_structure(
    node: &Node,
    shape: &Shape,
    leaves: &[u64],
    at: &mut usize,
    path: SmallPath,
    leaf_paths: &mut Vec<SmallPath>,
) -> Result<(), String> {
    match shape {
        Shape::Num(k) => {
            let want = leaves.get(*at).copied().unwrap_or(0);
            *at += 1;
            match node {
                Node::Num { kind, bits } => {
                    if num_equal(*k, want, *kind, *bits) {
                        leaf_paths.push(path);
                        Ok(())
                    } else {
                        Err(format!(
                            "component at {:?}: medium holds {} but the value has {}",
                            path.as_slice(),
                            node.render(),
                            Node::num(*k, want).render()
                        ))
                    }
                }
                other => Err(format!(
                    "component at {:?}: expected a bare number, medium holds {}",
                    path.as_slice(),
                    other.render()
                )),
            }
        }
        Shape::Bare(inner) => match node {
            // a newtype wrapper is how a self-describing medium sees `struct Rad(S)`; its payload
            // must be the bare number
            Node::Newtype { inner: n, .. } => check_structure(n, inner, leaves, at, path, leaf_paths),
            Node::Num { .. } => check_structure(node, inner, leaves, at, path, leaf_paths),
            other => Err(format!(
                "angle at {:?} is not a bare number: {}",
                path.as_slice(),
                other.render()
            )),
        },
        Shape::Wrap(inner) => match node {
            Node::Struct { entries, .. } if entries.len() == 1 => {
                check_structure(&entries[0].1, inner, leaves, at, path.child(0), leaf_paths)
            }
            Node::Newtype { inner: n, .. } => check_structure(n, inner, leaves, at, path, leaf_paths),
            _ => check_structure(node, inner, leaves, at, path, leaf_paths),
        },
        Shape::Rec(fields) => match node {
            Node::Struct { entries, .. } => {
                if entries.len() != fields.len() {
                    return Err(format!(
                        "record at {:?}: expected fields {:?}, medium holds {:?}",
                        path.as_slice(),
                        fields.iter().map(|f| f.0).collect::<Vec<_>>(),
                        entries.iter().map(|e| e.0.as_str()).collect::<Vec<_>>()
                    ));
                }
                for (fname, fshape) in fields {
                    let mut found = None;
                    for (i, (k, _)) in entries.iter().enumerate() {
                        if k == fname {
                            if found.is_some() {
                                return Err(format!("record at {:?}: field {:?} written twice", path.as_slice(), fname));
                            }
                            found = Some(i);
                        }
                    }
                    match found {
                        Some(i) => check_structure(&entries[i].1, fshape, leaves, at, path.child(i), leaf_paths)?,
                        None => {
                            return Err(format!(
                                "record at {:?}: no field named {:?}; medium holds {:?}",
                                path.as_slice(),
                                fname,
                                entries.iter().map(|e| e.0.as_str()).collect::<Vec<_>>()
                            ))
                        }
                    }
                }
                Ok(())
            }
            Node::Newtype { inner: n, .. } => check_structure(n, shape, leaves, at, path, leaf_paths),
            other => Err(format!(
                "record at {:?}: expected named fields {:?}, medium holds {}",
                path.as_slice(),
                fields.iter().map(|f| f.0).collect::<Vec<_>>(),
                other.render()
            )),
        },
    }
}

pub fn leaf_mut<'a>(root: &'a mut Node, path: &[u8]) -> Option<&'a mut Node> {
    let mut cur = root;
    let mut i = 0;
    loop {
        match cur {
            Node::Newtype { inner, .. } => cur = inner,
            Node::Some(inner) => cur = inner,
            Node::Struct { entries, .. } => {
                if i >= path.len() {
                    return None;
                }
                cur = &mut entries.get_mut(path[i] as usize)?.1;
                i += 1;
            }
            Node::Num { .. } => {
                return if i == path.len() { Some(cur) } else { None };
            }
            _ => return None,
        }
    }
}

/// The value reached by following entry indices from the root record (wrappers are transparent).
pub fn value_mut<'a>(root: &'a mut Node, path: &[u8]) -> Option<&'a mut Node> {
    let mut cur = root;
    for &i in path {
        loop {
            match cur {
                Node::Newtype { inner, .. } => cur = inner,
                Node::Some(inner) => cur = inner,
                _ => break,
            }
        }
        match cur {
            Node::Struct { entries, .. } => cur = &mut entries.get_mut(i as usize)?.1,
            _ => return None,
        }
    }
    Some(cur)
}

/// Apply a plan's `null_field` to the stored record. Returns the name of the entry.
pub fn apply_null_field(root: &mut Node, path: &[u8]) -> Option<String> {
    let (last, rec) = path.split_last()?;
    let mut cur = value_mut(root, rec)?;
    loop {
        match cur {
            Node::Newtype { inner, .. } => cur = inner,
            Node::Some(inner) => cur = inner,
            _ => break,
        }
    }
    match cur {
        Node::Struct { entries, .. } => {
            let e = entries.get_mut(*last as usize)?;
            e.1 = Node::Unit;
            Some(e.0.clone())
        }
        _ => None,
    }
}

fn render_leaves(shape: &Shape, leaves: &[u64]) -> String {
    let mut s = String::new();
    let mut at = 0;
    shape.render(leaves, &mut at, &mut s);
    s
}

fn first_diff(shape: &Shape, want: &[u64], got: &[u64], skip: &[bool]) -> Option<usize> {
    let mut kinds = Vec::new();
    shape.leaf_kinds(&mut kinds);
    if want.len() != got.len() {
        return Some(want.len().min(got.len()));
    }
    for i in 0..want.len() {
        if skip.get(i).copied().unwrap_or(false) {
            continue;
        }
        if want[i] != got[i] {
            return Some(i);
        }
    }
    None
}

pub fn panic_msg(p: Box<dyn std::any::Any + Send>) -> String {
    if let Some(s) = p.downcast_ref::<&str>() {
        s.to_string()
    } else if let Some(s) = p.downcast_ref::<String>() {
        s.clone()
    } else {
        "panic".to_string()
    }
}

pub struct ReadOutcome {
    /// leaves of the value that came back (model order), or the error text
    pub result: Result<Vec<u64>, String>,
    pub fired: Vec<FiredR>,
    pub applied: Vec<bool>,
    pub steps: u32,
    pub log: u64,
    pub opened: Vec<(SmallPath, Vec<Deliver>)>,
    pub trace: Option<Vec<(RStep, u8)>>,
    pub runaway: bool,
}

/// A value of `T` unrelated to the one under test (the old contents of reused storage).
pub fn stale_value<T: Subject>() -> T {
    let mut kinds = Vec::new();
    T::gen_kinds(&mut kinds);
    let g: Vec<u64> = kinds.iter().enumerate().map(|(i, (k, _))| crate::registry::small_value(*k, 40 + i as i64)).collect();
    T::build(&mut Cur::new(&g))
}

/// The only generic part of the read side: hand the medium to `T`, turn what comes back into leaves.
pub fn read_once<T: Subject>(medium: Medium, root: &Node, rfaults: &[RFault], trace: bool, in_place: bool) -> ReadOutcome {
    if medium.flat() {
        return crate::flat::read_flat::<T>(medium, root, rfaults.len(), in_place);
    }
    let unknown_vals: Vec<Node> = rfaults
        .iter()
        .map(|f| match f {
            RFault::Unknown { path, val, .. } => unknown_value_node(*val, node_at(root, path)),
            _ => Node::Unit,
        })
        .collect();
    let env = ReadEnv::new(medium, root, rfaults, &unknown_vals, trace);
    let r = catch_unwind(AssertUnwindSafe(|| {
        if in_place {
            let mut place: T = stale_value::<T>();
            T::deserialize_in_place(env.de(), &mut place).map(|()| place)
        } else {
            T::deserialize(env.de())
        }
    }));
    let result = match r {
        Ok(Ok(v)) => {
            let mut got = Vec::new();
            v.read(&mut got);
            Ok(got)
        }
        Ok(Err(e)) => Err(e.to_string()),
        Err(p) => Err(format!("PANIC: {}", panic_msg(p))),
    };
    let st = env.st.into_inner();
    ReadOutcome {
        result,
        fired: st.fired,
        applied: st.applied,
        steps: st.step,
        log: st.log.finish(),
        opened: st.opened,
        trace: st.trace,
        runaway: st.runaway,
    }
}

pub struct WriteOutcome {
    pub result: Result<(), String>,
    pub root: Option<Node>,
    pub root_writes: u32,
    pub dangling: usize,
    pub fired: Vec<FiredW>,
    pub steps: u32,
    pub log: u64,
    pub trace: Option<Vec<(WStep, u8)>>,
    pub runaway: bool,
}

/// The only generic part of the write side: build the value from its generator leaves and hand it
/// to the medium.
pub fn write_once<T: Subject>(medium: Medium, gen: &[u64], wfaults: &[WFault], trace: bool) -> WriteOutcome {
    let mut store = Store::new(medium, wfaults);
    if trace {
        store.trace = Some(Vec::new());
    }
    let r = catch_unwind(AssertUnwindSafe(|| {
        let v = T::build(&mut Cur::new(gen));
        v.serialize(&mut store)
    }));
    let result = match r {
        Ok(Ok(())) => Ok(()),
        Ok(Err(e)) => Err(e.to_string()),
        Err(p) => Err(format!("PANIC: {}", panic_msg(p))),
    };
    WriteOutcome {
        result,
        root_writes: store.root_writes,
        dangling: store.dangling(),
        steps: store.steps(),
        log: store.log.finish(),
        trace: store.trace.take(),
        runaway: store.runaway,
        fired: std::mem::take(&mut store.fired),
        root: store.root.take(),
    }
}

fn all_leaves_equal(shape: &Shape, got: &[u64], want: &[u64], skip: &[bool]) -> Result<(), String> {
    match first_diff(shape, want, got, skip) {
        None => Ok(()),
        Some(i) => Err(format!(
            "leaf #{} differs: read back {} but stored/original {}",
            i,
            render_leaves(shape, got),
            render_leaves(shape, want)
        )),
    }
}

/// What the oracle needs from one concrete type, behind a vtable so that the (large) oracle code
/// is compiled once and not once per type.
pub trait Ops: Send + Sync {
    fn shape(&self) -> Shape;
    fn faithful(&self) -> bool;
    /// build the value from generator leaves and read its leaves back through public fields
    fn model(&self, gen: &[u64]) -> Result<Vec<u64>, String>;
    fn write_event(&self, medium: Medium, gen: &[u64], wfaults: &[WFault], trace: bool) -> WriteOutcome;
    fn read_event(&self, medium: Medium, root: &Node, rfaults: &[RFault], trace: bool, in_place: bool) -> ReadOutcome;
    fn write_json(&self, gen: &[u64], plan: &crate::bytes::JPlan) -> crate::bytes::JWrite;
    fn read_json(&self, bytes: &[u8], plan: &crate::bytes::JPlan, stats: &mut (u32, bool, u32, u32)) -> Result<Vec<u64>, String>;
    fn mirror_read(&self, bytes: &[u8], plan: &crate::bytes::JPlan) -> Option<Result<Vec<u64>, String>>;
}

pub struct OpsOf<T>(pub std::marker::PhantomData<fn() -> T>);

impl<T: Subject> Ops for OpsOf<T> {
    fn shape(&self) -> Shape {
        T::shape()
    }
    fn faithful(&self) -> bool {
        T::faithful()
    }
    fn model(&self, gen: &[u64]) -> Result<Vec<u64>, String> {
        catch_unwind(AssertUnwindSafe(|| {
            let v = T::build(&mut Cur::new(gen));
            let mut m = Vec::new();
            v.read(&mut m);
            m
        }))
        .map_err(panic_msg)
    }
    fn write_event(&self, medium: Medium, gen: &[u64], wfaults: &[WFault], trace: bool) -> WriteOutcome {
        write_once::<T>(medium, gen, wfaults, trace)
    }
    fn read_event(&self, medium: Medium, root: &Node, rfaults: &[RFault], trace: bool, in_place: bool) -> ReadOutcome {
        read_once::<T>(medium, root, rfaults, trace, in_place)
    }
    fn write_json(&self, gen: &[u64], plan: &crate::bytes::JPlan) -> crate::bytes::JWrite {
        crate::bytes::write_json_gen::<T>(gen, plan)
    }
    fn read_json(&self, bytes: &[u8], plan: &crate::bytes::JPlan, stats: &mut (u32, bool, u32, u32)) -> Result<Vec<u64>, String> {
        crate::bytes::read_json_leaves::<T>(bytes, plan, stats)
    }
    fn mirror_read(&self, bytes: &[u8], plan: &crate::bytes::JPlan) -> Option<Result<Vec<u64>, String>> {
        T::mirror_read(bytes, plan)
    }
}

pub fn is_decomposed_name(name: &str) -> bool {
    name.starts_with("Decomposed<")
}

pub struct ReadFacts<'a> {
    pub root: &'a Node,
    pub opened: &'a [(SmallPath, Vec<Deliver>)],
    pub err_fired: bool,
    /// an error / truncation hit before every top-level field had been delivered completely
    pub err_before_all: bool,
    pub keyed: bool,
    /// keys are delivered as bytes: acceptance is not promised, only "never wrong data"
    pub weak_keys: bool,
    pub is_dec: bool,
    pub patched: bool,
}

/// Decide which assertion the property puts on this read, from what was actually delivered, and
/// evaluate it. Returns true when any fault took effect.
pub fn judge_read(
    out: &mut Outcome,
    facts: &ReadFacts,
    shape: &Shape,
    result: &Result<Vec<u64>, String>,
    expected: &[u64],
    leaf_paths: &[SmallPath],
) -> bool {
    // classify what happened to this read, from what was actually delivered
    let mut top_drop = false;
    let mut top_unknown = false;
    let mut top_dup = false;
    let mut top_reorder = false;
    let mut nested_reorder = false;
    let mut nested_struct = false;
    // the top-level record simply ended early: a prefix of its entries arrived, in order, once each
    let mut top_ended_early = false;
    let mut skip = vec![false; expected.len()];
    for (path, order) in facts.opened {
        let n = match node_at(facts.root, path.as_slice()) {
            Some(Node::Struct { entries, .. }) => entries.len(),
            _ => continue,
        };
        let top = path.len == 0;
        let mut seen = [0u8; 32];
        let mut last: i32 = -1;
        let mut reordered = false;
        let mut unknown = false;
        for d in order {
            match d {
                Deliver::Orig(i) => {
                    let i = *i as usize;
                    if i < 32 {
                        if seen[i] == 0 && (i as i32) < last {
                            reordered = true;
                        }
                        if seen[i] == 0 {
                            last = last.max(i as i32);
                        }
                        seen[i] = seen[i].saturating_add(1);
                    }
                }
                Deliver::Unknown(_) => unknown = true,
            }
        }
        let missing = (0..n.min(32)).any(|i| seen[i] == 0);
        let dup = (0..n.min(32)).any(|i| seen[i] > 1);
        if top {
            let k = order.len();
            top_ended_early = missing
                && !unknown
                && !dup
                && !reordered
                && k < n
                && order.iter().enumerate().all(|(j, d)| matches!(d, Deliver::Orig(i) if *i as usize == j));
            top_drop |= missing;
            top_unknown |= unknown;
            top_dup |= dup;
            top_reorder |= reordered;
        } else {
            nested_struct |= missing || unknown || dup;
            nested_reorder |= reordered;
        }
        // leaves under an entry that was not delivered are not expected to carry the stored value
        if missing && leaf_paths.len() == expected.len() {
            let p = path.as_slice();
            for (li, lp) in leaf_paths.iter().enumerate() {
                let s = lp.as_slice();
                if s.len() > p.len() && s.starts_with(p) {
                    let i = s[p.len()] as usize;
                    if i < 32 && seen[i] == 0 {
                        skip[li] = true;
                    }
                }
            }
        }
    }
    let err_fired = facts.err_fired;
    let err_before_all = facts.err_before_all;
    let any_applied = top_drop || top_unknown || top_dup || top_reorder || nested_reorder || nested_struct || err_fired;

    let keyed = facts.keyed;
    let is_dec = facts.is_dec;
    let patched = facts.patched;
    let r_result = result;
    let expect_ok_equal = |out: &mut Outcome, id: &'static str, what: &str| {
        out.evaluated[assert_index(id)] += 1;
        match r_result {
            Ok(v2) => {
                if let Err(e) = all_leaves_equal(shape, v2, expected, &[]) {
                    if out.failure.is_none() {
                        out.failure = Some(Failure { assert_id: id, observed: format!("{}: {}", what, e) });
                    }
                }
            }
            Err(e) => {
                if out.failure.is_none() {
                    out.failure = Some(Failure {
                        assert_id: id,
                        observed: format!("{}: deserialize returned Err({})", what, e),
                    });
                }
            }
        }
    };
    let expect_err = |out: &mut Outcome, id: &'static str, what: &str| {
        out.evaluated[assert_index(id)] += 1;
        if let Ok(got) = r_result {
            if out.failure.is_none() {
                out.failure = Some(Failure {
                    assert_id: id,
                    observed: format!("{}: deserialize returned Ok({})", what, render_leaves(shape, got)),
                });
            }
        }
    };
    let expect_no_wrong_data = |out: &mut Outcome, what: &str| {
        out.evaluated[assert_index("A9")] += 1;
        if let Ok(v2) = r_result {
            if leaf_paths.len() == expected.len() {
                if let Err(e) = all_leaves_equal(shape, v2, expected, &skip) {
                    if out.failure.is_none() {
                        out.failure = Some(Failure { assert_id: "A9", observed: format!("{}: {}", what, e) });
                    }
                }
            }
        }
    };

    let a1 = if patched { "AP" } else { "A1" };
    let weak = facts.weak_keys;
    if !keyed {
        // positional medium: names are not on the wire, structural faults are meaningless — except
        // a record that ends early: the last field(s) of a Decomposed are missing, nothing else happened
        if is_dec && top_ended_early && !top_unknown && !top_dup && !top_reorder && !nested_reorder && !nested_struct && !err_fired {
            expect_err(out, "A4", "the positional record ended before all three fields of Decomposed had been delivered");
        } else if !any_applied && !is_dec && weak {
            expect_no_wrong_data(out, "positional medium, unreachable stored value");
        } else if !any_applied && !is_dec {
            expect_ok_equal(out, a1, "fault-free positional round trip");
        } else if !top_drop && !top_unknown && !top_dup && !top_reorder && !nested_reorder && !nested_struct {
            expect_no_wrong_data(out, "positional medium");
        }
    } else if is_dec && top_drop {
        expect_err(out, "A4", "a top-level field of Decomposed was never delivered");
    } else if is_dec && top_unknown {
        expect_err(out, "A5", "an unknown top-level field was delivered to Decomposed");
    } else if err_fired {
        if is_dec && err_before_all {
            expect_err(out, "A7", "the read failed before all three fields of Decomposed had arrived");
        } else {
            expect_no_wrong_data(out, "read error");
        }
    } else if nested_struct || top_dup || top_drop || top_unknown {
        expect_no_wrong_data(out, "structural fault");
    } else if top_reorder || nested_reorder {
        // A keyed medium holds an unordered set of named entries (a JSON object has no order): the
        // same record delivered in another order is still "the result" of serialization, at every
        // level and for every type, not only for Decomposed's own three fields.
        if !weak {
            if is_dec && !nested_reorder {
                expect_ok_equal(out, "A3", "fields of Decomposed delivered in another order");
            } else {
                expect_ok_equal(out, "A3", "the named fields of a (nested) record delivered in another order");
            }
        } else {
            expect_no_wrong_data(out, "reordered record");
        }
    } else if weak {
        expect_no_wrong_data(out, "keys delivered as bytes");
    } else {
        expect_ok_equal(out, a1, "fault-free round trip");
    }

    any_applied
}

/// Execute one plan for the type behind `ops`.
pub fn run_plan(ops: &dyn Ops, plan: &Plan, opts: RunOpts) -> Outcome {
    let mut out = Outcome::default();
    let mut log = Fnv::default();
    let shape = ops.shape();
    let is_dec = is_decomposed_name(&plan.ty);
    let medium = plan.medium;

    macro_rules! eval {
        ($id:expr) => {
            out.evaluated[assert_index($id)] += 1
        };
    }
    macro_rules! fail {
        ($id:expr, $($arg:tt)*) => {{
            if out.failure.is_none() {
                out.failure = Some(Failure { assert_id: $id, observed: format!($($arg)*) });
            }
        }};
    }

    // ---- the value and its model -------------------------------------------------------
    let m = match ops.model(&plan.gen) {
        Ok(x) => x,
        Err(p) => {
            out.harness_error = Some(format!("building the value panicked: {}", p));
            return out;
        }
    };
    if ops.faithful() && m != plan.gen {
        out.harness_error = Some(format!(
            "model mismatch: built from {:?} but public fields read {:?}",
            plan.gen, m
        ));
        return out;
    }
    if m.len() != shape.n_leaves() {
        out.harness_error = Some("model leaf count differs from shape".to_string());
        return out;
    }
    for x in &m {
        log.u64(*x);
    }
    log.u64(medium.code());

    // ---- write -------------------------------------------------------------------------
    let w = ops.write_event(medium, &plan.gen, &plan.wfaults, opts.trace);
    out.wsteps = w.steps;
    out.wfired = w.fired.clone();
    out.write_ok = Some(w.result.is_ok());
    log.u64(w.log);
    log.u64(w.result.is_ok() as u64);
    let wfaulted = !w.fired.is_empty();
    if w.runaway {
        // bounded liveness: whatever the medium does, serialize has to come back
        eval!("AR");
        fail!("AR", "serialize did not return within {} steps although every step was failing", w.steps);
    }

    let mut leaf_paths: Vec<SmallPath> = Vec::with_capacity(m.len());
    let mut stored: Option<Node> = None;

    if !wfaulted {
        // faithful medium: the write must succeed and leave exactly one complete record
        eval!("A1");
        match &w.result {
            Err(e) => fail!("A1", "serialize failed on a fault-free medium: {}", e),
            Ok(()) => {
                if w.root_writes != 1 || w.dangling != 0 || w.root.is_none() {
                    fail!(
                        "A1",
                        "serialize returned Ok but the medium holds {} top-level records ({} left open)",
                        w.root_writes,
                        w.dangling
                    );
                }
            }
        }
        if let (Ok(()), Some(root)) = (&w.result, &w.root) {
            eval!("A2");
            let mut at = 0;
            match check_structure(root, &shape, &m, &mut at, SmallPath::root(), &mut leaf_paths) {
                Ok(()) => stored = Some(root.clone()),
                Err(e) => {
                    fail!("A2", "{}", e);
                    // keep going with the stored record so that A1's read half still runs
                    stored = Some(root.clone());
                    leaf_paths.clear();
                }
            }
        }
    } else if w.result.is_err() {
        // A6 is an implication (a step failed AND serialize said Ok => the record is whole);
        // here its premise is false: the failure was reported, nothing is claimed
        eval!("A6");
    } else {
        // A6: the code said Ok although a step failed: then the record must be whole
        eval!("A6");
        let mut whole = w.root_writes == 1 && w.dangling == 0;
        let mut why = String::new();
        match &w.root {
            None => {
                whole = false;
                why = "no record on the medium".to_string();
            }
            Some(root) => {
                let mut at = 0;
                let mut lp = Vec::new();
                if let Err(e) = check_structure(root, &shape, &m, &mut at, SmallPath::root(), &mut lp) {
                    whole = false;
                    why = e;
                } else {
                    let rb: ReadOutcome = ops.read_event(medium, root, &[], false, false);
                    out.rsteps += rb.steps;
                    match rb.result {
                        Ok(v2) => {
                            if let Err(e) = all_leaves_equal(&shape, &v2, &m, &[]) {
                                whole = false;
                                why = e;
                            }
                        }
                        Err(e) => {
                            // positional framing cannot read a Decomposed back today; that is
                            // not the write's fault
                            if !((is_dec && !medium.keyed()) || medium.key_form.is_bytes()) {
                                whole = false;
                                why = format!("read-back failed: {}", e);
                            }
                        }
                    }
                }
            }
        }
        if !whole {
            fail!(
                "A6",
                "serialize returned Ok although write step {} failed, and the medium does not hold the value: {}",
                w.fired[0].step,
                why
            );
        }
    }

    // ---- read --------------------------------------------------------------------------
    let mut expected = m.clone();
    let mut model_kinds = Vec::new();
    shape.leaf_kinds(&mut model_kinds);
    if let (Some(node), Some(patch)) = (stored.as_mut(), plan.patch.as_ref()) {
        if leaf_paths.len() == m.len() && patch.len() == m.len() {
            let mut ok = true;
            let mut exp = m.clone();
            for (i, p) in leaf_paths.iter().enumerate() {
                match leaf_mut(node, p.as_slice()) {
                    // the same number under the type the writer chose for this component; a
                    // component whose stored type cannot hold the new number keeps its old one
                    Some(Node::Num { kind, bits }) => {
                        if let Some(b) = model_kinds.get(i).and_then(|mk| crate::node::convert_num(*mk, patch[i], *kind)) {
                            *bits = b;
                            exp[i] = patch[i];
                        }
                    }
                    _ => ok = false,
                }
            }
            if ok {
                expected = exp;
            } else {
                out.harness_error = Some("could not patch stored leaves".to_string());
            }
        }
    }
    let patched = plan.patch.is_some() && expected != m;
    for x in &expected {
        log.u64(*x);
    }
    let nulled: Option<String> = match (stored.as_mut(), plan.null_field.as_ref()) {
        (Some(node), Some(path)) if !medium.flat() => apply_null_field(node, path),
        _ => None,
    };
    log.u64(nulled.is_some() as u64);

    if let Some(root) = stored.as_ref() {
        let no_faults: [RFault; 0] = [];
        let rfaults: &[RFault] = if nulled.is_some() { &no_faults } else { &plan.rfaults };
        let r: ReadOutcome = ops.read_event(medium, root, rfaults, opts.trace, plan.in_place);
        out.rsteps += r.steps;
        if r.runaway {
            eval!("AR");
            fail!("AR", "deserialize did not return within {} steps although every step was failing", r.steps);
        }
        out.rfired = r.fired.clone();
        out.applied = r.applied.clone();
        out.read_ok = Some(r.result.is_ok());
        log.u64(r.log);
        log.u64(r.result.is_ok() as u64);
        if let Some((_, order)) = r.opened.iter().find(|(p, _)| p.len == 0) {
            out.top_order = order
                .iter()
                .map(|d| match d {
                    Deliver::Orig(i) => *i,
                    Deliver::Unknown(i) => 0x80 | *i,
                })
                .collect();
        }

        let all_top: u32 = match skip_wrappers(root) {
            Node::Struct { entries, .. } => (1u32 << entries.len().min(31)) - 1,
            _ => 0,
        };
        let facts = ReadFacts {
            root,
            opened: &r.opened,
            err_fired: !r.fired.is_empty(),
            err_before_all: r.fired.iter().any(|f| f.top_done & all_top != all_top),
            keyed: medium.keyed(),
            // A Basis holds a private matrix: bit patterns written straight onto the medium are not
            // values any public constructor can produce, and a reader may refuse them. Only "never
            // wrong data" is demanded of such reads; reachable near-rotations come from the
            // generator's drift leaf instead.
            weak_keys: medium.key_form.is_bytes() || (patched && shape.has_wrap()),
            is_dec,
            patched,
        };
        let any_applied = if let Some(name) = &nulled {
            // the key arrived, its data did not: whatever would come back for it was not on the medium
            eval!("A7");
            out.nulled = true;
            if let Ok(got) = &r.result {
                fail!(
                    "A7",
                    "the value of field `{}` arrived as null (unit) and deserialize returned Ok({}): that component was never on the medium",
                    name,
                    render_leaves(&shape, got)
                );
            }
            true
        } else {
            judge_read(&mut out, &facts, &shape, &r.result, &expected, &leaf_paths)
        };
        if opts.trace {
            let d = out.detail.get_or_insert_with(RunDetail::default);
            d.read_result = match &r.result {
                Ok(got) => format!("Ok({})", render_leaves(&shape, got)),
                Err(e) => format!("Err({})", e),
            };
            d.rtrace = r.trace.clone().unwrap_or_default();
        }

        // signature of the read schedule
        let mut sg = Fnv::default();
        for (p, order) in &r.opened {
            sg.bytes(p.as_slice());
            for d in order {
                sg.u64(match d {
                    Deliver::Orig(i) => *i as u64,
                    Deliver::Unknown(i) => {
                        // identify the injected entry by key and value kind, not by plan index
                        match &plan.rfaults[*i as usize] {
                            RFault::Unknown { key, val, .. } => {
                                let mut h = Fnv::default();
                                h.str(key);
                                h.u64(match val {
                                    UVal::Num => 1,
                                    UVal::Str => 2,
                                    UVal::Rec => 3,
                                    UVal::Seq => 4,
                                    UVal::Unit => 5,
                                    UVal::CopyOf(j) => 16 + *j as u64,
                                });
                                0x1000 | (h.finish() & 0xfff)
                            }
                            _ => 0x1000,
                        }
                    }
                });
            }
        }
        for f in &r.fired {
            sg.u64(0xE000 | f.step as u64);
            sg.u64(f.permanent as u64);
        }
        out.sig = sg.finish();
        if any_applied {
            out.nontrivial = true;
        }
    }

    if opts.trace {
        let d = out.detail.get_or_insert_with(RunDetail::default);
        d.value = render_leaves(&shape, &m);
        d.stored = stored.as_ref().map(|n| n.render()).unwrap_or_else(|| {
            w.root.as_ref().map(|n| format!("(after faulted write) {}", n.render())).unwrap_or_else(|| "<nothing>".to_string())
        });
        d.write_result = match &w.result {
            Ok(()) => "Ok".to_string(),
            Err(e) => format!("Err({})", e),
        };
        d.wtrace = w.trace.clone().unwrap_or_default();
        if let Some(n) = stored.as_ref() {
            crate::registry::collect_records(n, &mut Vec::new(), &mut d.records);
        }
    }

    // ---- recovery ----------------------------------------------------------------------
    if plan.retry && (wfaulted || out.nontrivial) {
        eval!("AR");
        let w2 = ops.write_event(medium, &plan.gen, &[], false);
        out.wsteps += w2.steps;
        log.u64(w2.log);
        match (&w2.result, &w2.root) {
            (Ok(()), Some(root2)) => {
                let r2: ReadOutcome = ops.read_event(medium, root2, &[], false, plan.in_place);
                out.rsteps += r2.steps;
                log.u64(r2.log);
                match r2.result {
                    Ok(v2) => {
                        if let Err(e) = all_leaves_equal(&shape, &v2, &m, &[]) {
                            fail!("AR", "fault-free retry after a faulted attempt: {}", e);
                        }
                    }
                    Err(e) => {
                        if !((is_dec && !medium.keyed()) || medium.key_form.is_bytes()) {
                            fail!("AR", "fault-free retry after a faulted attempt failed to read: {}", e);
                        }
                    }
                }
            }
            (Err(e), _) => fail!("AR", "fault-free retry after a faulted attempt failed to write: {}", e),
            (Ok(()), None) => fail!("AR", "fault-free retry wrote nothing"),
        }
    }

    // ---- signature ---------------------------------------------------------------------
    let mut sg = Fnv::default();
    sg.str(&plan.ty);
    sg.u64(medium.code());
    for f in &w.fired {
        sg.u64(0xD000 | f.step as u64);
        sg.u64(f.kind as u64);
    }
    sg.u64(w.result.is_ok() as u64);
    sg.u64(out.sig);
    sg.u64(patched as u64);
    sg.u64(plan.in_place as u64);
    if let Some(p) = &plan.null_field {
        sg.u64(0x4e55_4c4c);
        sg.bytes(p);
    }
    out.sig = sg.finish();
    if wfaulted {
        out.nontrivial = true;
    }
    if let Some(f) = &out.failure {
        log.str(f.assert_id);
        log.str(&f.observed);
    }
    out.log_hash = log.finish();
    out
}
