//! Batches of simulated runs: parallel execution, order-free aggregation, evidence, violation
//! reports with minimised replay files.

use crate::bytes::JPlan;
use crate::gen::*;
use crate::medium::*;
use crate::node::Kind;
use crate::oracle::*;
use crate::registry::*;
use crate::rng::mix64;
use serde_json::{json, Value};
use std::collections::{BTreeMap, HashSet};
use std::sync::atomic::{AtomicU64, Ordering};
use std::time::Instant;

pub const DEFAULT_SEED: u64 = 2026_1003;
pub const PROPERTY: &str = "C20";
/// Which build of the code under test this binary is (see Cargo.toml, profile `checked`).
pub const BUILD_CONFIG_DEFAULT: &str = if cfg!(debug_assertions) { "checked" } else { "release" };

/// Label of this build configuration (the driver names the extra per-feature builds).
pub fn build_config() -> String {
    match std::env::var("VERIF_BUILD_LABEL") {
        Ok(s) if !s.trim().is_empty() => s.trim().to_string(),
        _ => BUILD_CONFIG_DEFAULT.to_string(),
    }
}

const FAULT_KINDS: [&str; 21] = [
    "W_ERR_TRANSIENT", "W_ERR_PERMANENT", "R_REORDER", "R_DROP", "R_UNKNOWN", "R_DUP", "R_ERR", "R_TRUNC",
    "BYTES_W_SHORT", "BYTES_W_EINTR", "BYTES_W_IOERR_TRANSIENT", "BYTES_W_IOERR_PERMANENT", "BYTES_R_SHORT",
    "BYTES_R_EINTR", "BYTES_R_IOERR", "BYTES_R_TRUNC", "BYTES_R_FLIP", "W_PANIC", "R_PANIC",
    "R_NULL_VALUE", "BYTES_R_NULL_VALUE",
];

/// One run of either lane.
#[derive(Clone, Debug, PartialEq, serde::Serialize, serde::Deserialize)]
pub enum AnyPlan {
    /// event-level medium (SimStore / SimSource)
    Event(Plan),
    /// byte-level medium (serde_json over FaultyWriter / FaultyReader)
    Json(JPlan),
    /// several operations back to back on one thread: a multi-step history (state that a change
    /// might keep between calls — a static, a thread_local — is carried from one to the next)
    Session(Vec<AnyPlan>),
}

impl AnyPlan {
    pub fn ty(&self) -> &str {
        match self {
            AnyPlan::Event(p) => &p.ty,
            AnyPlan::Json(p) => &p.ty,
            AnyPlan::Session(v) => v.first().map(|p| p.ty()).unwrap_or(""),
        }
    }
    pub fn rfaults(&self) -> &[RFault] {
        match self {
            AnyPlan::Event(p) => &p.rfaults,
            AnyPlan::Json(p) => &p.rfaults,
            AnyPlan::Session(_) => &[],
        }
    }
    pub fn lane(&self) -> &'static str {
        match self {
            AnyPlan::Event(_) => "event",
            AnyPlan::Json(_) => "json",
            AnyPlan::Session(_) => "session",
        }
    }
}

fn fault_index(name: &str) -> usize {
    FAULT_KINDS.iter().position(|x| *x == name).unwrap()
}

// ---- probes: rare conditions that must have been reached ------------------------------------

pub struct ProbeSpace {
    names: Vec<String>,
    n_types: usize,
}

const P_ORDER: usize = 0; // 6
const P_DROP: usize = 6; // 7 (mask 1..=7)
const P_UNKNOWN_POS: usize = 13; // 4
const P_W_OPEN: usize = 17;
const P_W_FIELD: usize = 18;
const P_W_END: usize = 19;
const P_W_NESTED: usize = 20;
const P_RERR_BEFORE: usize = 21;
const P_RERR_AFTER: usize = 22;
const P_FRAMING_KEY: usize = 23; // 3 framings x 6 key forms
const P_ASSERT: usize = 41; // 11
const P_JSON: usize = 52; // reader x8, escaped keys
const P_WIDE: usize = 61; // event, bytes
const P_FLAT: usize = 63; // other types, Decomposed
const P_TYPE: usize = 65;

const PERMS3: [[u8; 3]; 6] = [[0, 1, 2], [0, 2, 1], [1, 0, 2], [1, 2, 0], [2, 0, 1], [2, 1, 0]];

impl ProbeSpace {
    fn new(reg: &[TypeEntry]) -> ProbeSpace {
        let mut names = Vec::new();
        for p in PERMS3 {
            names.push(format!("decomposed_order_{}{}{}_accepted_path", p[0], p[1], p[2]));
        }
        for m in 1..=7u8 {
            names.push(format!("decomposed_drop_mask_{:03b}", m));
        }
        for pos in 0..4 {
            names.push(format!("decomposed_unknown_at_pos_{}_all_fields_present", pos));
        }
        names.push("write_fault_on_decomposed_open".into());
        names.push("write_fault_on_decomposed_top_field".into());
        names.push("write_fault_on_decomposed_end".into());
        names.push("write_fault_inside_nested_record".into());
        names.push("read_error_before_all_fields".into());
        names.push("read_error_after_all_fields".into());
        for f in ["self_delim", "len_prefixed", "positional"] {
            for k in ["visit_str", "visit_borrowed_str", "visit_string", "visit_bytes", "visit_borrowed_bytes", "visit_u64_index"] {
                names.push(format!("medium_{}_{}", f, k));
            }
        }
        for a in ASSERT_IDS {
            names.push(format!("assertion_{}_evaluated", a));
        }
        names.push("bytes_from_reader".into());
        names.push("bytes_from_slice".into());
        names.push("bytes_from_str".into());
        names.push("bytes_from_bufreader".into());
        names.push("bytes_via_json_value".into());
        names.push("bytes_behind_serde_flatten".into());
        names.push("bytes_behind_serde_untagged".into());
        names.push("bytes_inside_containers".into());
        names.push("bytes_escaped_keys".into());
        names.push("integer_beyond_64_bits_fault_free_round_trip".into());
        names.push("bytes_integer_beyond_64_bits_fault_free_round_trip".into());
        names.push("medium_without_structure_fault_free_round_trip".into());
        names.push("medium_without_structure_decomposed_read_judged".into());
        assert_eq!(names.len(), P_TYPE);
        for e in reg {
            names.push(format!("fault_free_round_trip_{}", e.name));
        }
        for e in reg {
            names.push(format!("bytes_fault_free_round_trip_{}", e.name));
        }
        ProbeSpace { names, n_types: reg.len() }
    }
    fn len(&self) -> usize {
        self.names.len()
    }
}

// ---- aggregation -----------------------------------------------------------------------------

#[derive(Clone)]
struct FailRec {
    run: u64,
    plan: AnyPlan,
    failure: Failure,
}

struct Agg {
    runs: u64,
    evaluated: [u64; ASSERT_IDS.len()],
    first_eval: [u64; ASSERT_IDS.len()],
    fired: [u64; FAULT_KINDS.len()],
    runs_with_fault: [u64; 4], // 0, 1, 2, >=3 faults fired/applied
    probes: Vec<u64>,
    sigs: HashSet<u64>,
    sigs_nontrivial: HashSet<u64>,
    digest: u64,
    wsteps: u64,
    rsteps: u64,
    write_ok: u64,
    write_err: u64,
    read_ok: u64,
    read_err: u64,
    failures: BTreeMap<&'static str, FailRec>,
    n_failures: u64,
    harness_errors: Vec<(u64, String)>,
    per_family: BTreeMap<&'static str, u64>,
    hashes: Option<Vec<(u64, u64)>>,
    lane_runs: [u64; 2],
    format_lossy: u64,
    ops: u64,
    sessions: u64,
}

impl Agg {
    fn new(nprobes: usize, keep_hashes: bool) -> Agg {
        Agg {
            runs: 0,
            evaluated: [0; ASSERT_IDS.len()],
            first_eval: [u64::MAX; ASSERT_IDS.len()],
            fired: [0; FAULT_KINDS.len()],
            runs_with_fault: [0; 4],
            probes: vec![0; nprobes],
            sigs: HashSet::new(),
            sigs_nontrivial: HashSet::new(),
            digest: 0,
            wsteps: 0,
            rsteps: 0,
            write_ok: 0,
            write_err: 0,
            read_ok: 0,
            read_err: 0,
            failures: BTreeMap::new(),
            n_failures: 0,
            harness_errors: Vec::new(),
            per_family: BTreeMap::new(),
            hashes: if keep_hashes { Some(Vec::new()) } else { None },
            lane_runs: [0; 2],
            format_lossy: 0,
            ops: 0,
            sessions: 0,
        }
    }

    fn merge(&mut self, o: Agg) {
        self.runs += o.runs;
        for i in 0..ASSERT_IDS.len() {
            self.evaluated[i] += o.evaluated[i];
            self.first_eval[i] = self.first_eval[i].min(o.first_eval[i]);
        }
        for i in 0..FAULT_KINDS.len() {
            self.fired[i] += o.fired[i];
        }
        for i in 0..4 {
            self.runs_with_fault[i] += o.runs_with_fault[i];
        }
        for (a, b) in self.probes.iter_mut().zip(o.probes.iter()) {
            *a += *b;
        }
        self.sigs.extend(o.sigs);
        self.sigs_nontrivial.extend(o.sigs_nontrivial);
        self.digest = self.digest.wrapping_add(o.digest);
        self.wsteps += o.wsteps;
        self.rsteps += o.rsteps;
        self.write_ok += o.write_ok;
        self.write_err += o.write_err;
        self.read_ok += o.read_ok;
        self.read_err += o.read_err;
        self.n_failures += o.n_failures;
        self.lane_runs[0] += o.lane_runs[0];
        self.lane_runs[1] += o.lane_runs[1];
        self.format_lossy += o.format_lossy;
        self.ops += o.ops;
        self.sessions += o.sessions;
        for (k, v) in o.failures {
            match self.failures.get(k) {
                Some(cur) if cur.run <= v.run => {}
                _ => {
                    self.failures.insert(k, v);
                }
            }
        }
        self.harness_errors.extend(o.harness_errors);
        self.harness_errors.sort();
        self.harness_errors.truncate(5);
        for (k, v) in o.per_family {
            *self.per_family.entry(k).or_insert(0) += v;
        }
        if let (Some(a), Some(b)) = (self.hashes.as_mut(), o.hashes) {
            a.extend(b);
        }
    }

    /// Run-level bookkeeping: one run is one plan (a session of several operations is one run).
    fn record_run(&mut self, run: u64, plan: &AnyPlan, r: &RunOut) {
        self.runs += 1;
        if matches!(plan, AnyPlan::Session(_)) {
            self.sessions += 1;
        }
        self.digest = self.digest.wrapping_add(mix64(run.wrapping_mul(0x9E37_79B9_7F4A_7C15) ^ r.log_hash));
        if let Some(h) = self.hashes.as_mut() {
            h.push((run, r.log_hash));
        }
        self.sigs.insert(r.sig);
        if r.nontrivial {
            self.sigs_nontrivial.insert(r.sig);
        }
        if let Some(h) = &r.harness_error {
            self.harness_errors.push((run, h.clone()));
            self.harness_errors.sort();
            self.harness_errors.truncate(5);
        }
        if let Some(f) = &r.failure {
            self.n_failures += 1;
            match self.failures.get(f.assert_id) {
                Some(cur) if cur.run <= run => {}
                _ => {
                    self.failures.insert(f.assert_id, FailRec { run, plan: plan.clone(), failure: f.clone() });
                }
            }
        }
    }

    /// Operation-level bookkeeping (fault counters, probes, step counts).
    fn record_op(&mut self, run: u64, e: &TypeEntry, ti: usize, n_types: usize, plan: &AnyPlan, o: &Outcome) {
        self.ops += 1;
        let is_json = matches!(plan, AnyPlan::Json(_));
        self.lane_runs[is_json as usize] += 1;
        let keyed = match plan {
            AnyPlan::Event(p) => p.medium.keyed(),
            _ => true,
        };
        let has_patch = match plan {
            AnyPlan::Event(p) => p.patch.is_some(),
            AnyPlan::Json(p) => p.patch.is_some(),
            AnyPlan::Session(_) => false,
        };
        *self.per_family.entry(e.family).or_insert(0) += 1;
        self.wsteps += o.wsteps as u64;
        self.rsteps += o.rsteps as u64;
        match o.write_ok {
            Some(true) => self.write_ok += 1,
            Some(false) => self.write_err += 1,
            None => {}
        }
        match o.read_ok {
            Some(true) => self.read_ok += 1,
            Some(false) => self.read_err += 1,
            None => {}
        }
        for i in 0..ASSERT_IDS.len() {
            if o.evaluated[i] > 0 {
                self.evaluated[i] += o.evaluated[i] as u64;
                self.first_eval[i] = self.first_eval[i].min(run);
                self.probes[P_ASSERT + i] += 1;
            }
        }
        let mut nf = 0usize;
        for f in &o.wfired {
            nf += 1;
            self.fired[match f.kind {
                WKind::Transient => 0,
                WKind::Permanent => 1,
                WKind::Panic => 17,
            } + if is_json && f.kind != WKind::Panic { 10 } else { 0 }] += 1;
            if e.is_dec && !is_json {
                use crate::store::WStep;
                // (the top-level record may legitimately be written through serialize_map)
                match (f.what, f.depth) {
                    (WStep::OpenStruct, 0) | (WStep::OpenOther, 0) => self.probes[P_W_OPEN] += 1,
                    (WStep::Field, 1) | (WStep::Element, 1) => self.probes[P_W_FIELD] += 1,
                    (WStep::End, 1) => self.probes[P_W_END] += 1,
                    (_, d) if d >= 2 => self.probes[P_W_NESTED] += 1,
                    _ => {}
                }
            }
            // a permanent fault fires on every later step too; count it once
            if f.kind == WKind::Permanent {
                break;
            }
        }
        for (i, f) in plan.rfaults().iter().enumerate() {
            if o.applied.get(i).copied().unwrap_or(false) {
                nf += 1;
                self.fired[fault_index(f.kind_name())] += 1;
            }
        }
        if o.nulled {
            nf += 1;
            self.fired[19 + is_json as usize] += 1;
        }
        let all3 = 0b111u32;
        let mut seen_perm = false;
        for f in &o.rfired {
            if f.permanent && seen_perm {
                continue;
            }
            seen_perm |= f.permanent;
            nf += 1;
            self.fired[if f.panic { 18 } else if f.permanent { 7 } else { 6 }] += 1;
            if e.is_dec && keyed {
                if f.top_done & all3 != all3 {
                    self.probes[P_RERR_BEFORE] += 1;
                } else {
                    self.probes[P_RERR_AFTER] += 1;
                }
            }
        }
        if is_json {
            let j = &o.jstats;
            self.fired[8] += j.w_short as u64;
            self.fired[9] += j.w_eintr as u64;
            self.fired[12] += j.r_short as u64;
            self.fired[13] += j.r_eintr as u64;
            self.fired[14] += j.r_ioerr as u64;
            self.fired[15] += j.trunc as u64;
            self.fired[16] += j.flip as u64;
            nf += (j.r_ioerr + j.trunc + j.flip) as usize;
            if j.format_lossy {
                self.format_lossy += 1;
            }
            if o.read_ok.is_some() {
                self.probes[P_JSON + j.reader as usize] += 1;
                if j.escaped_keys {
                    self.probes[P_JSON + 8] += 1;
                }
            }
        }
        self.runs_with_fault[nf.min(3)] += 1;
        if let AnyPlan::Event(p) = plan {
            if p.medium.flat() && nf == 0 && o.read_ok.is_some() && o.failure.is_none() {
                if e.is_dec {
                    if o.evaluated[assert_index("A9")] > 0 {
                        self.probes[P_FLAT + 1] += 1;
                    }
                } else if o.read_ok == Some(true) && o.evaluated[assert_index("A1")] > 0 {
                    self.probes[P_FLAT] += 1;
                }
            }
            self.probes[P_FRAMING_KEY + (p.medium.framing as usize) * 6 + p.medium.key_form as usize] += 1;
        }

        if e.is_dec && keyed && o.rfired.is_empty() && o.read_ok.is_some() && o.jstats.r_ioerr + o.jstats.trunc + o.jstats.flip == 0 {
            let origs: Vec<u8> = o.top_order.iter().copied().filter(|x| x & 0x80 == 0).collect();
            let unknowns = o.top_order.iter().filter(|x| **x & 0x80 != 0).count();
            let mut mask = 0u8;
            for i in &origs {
                mask |= 1 << i;
            }
            let nodup = origs.len() == mask.count_ones() as usize;
            if nodup && mask == 0b111 && unknowns == 0 && o.evaluated[assert_index("A3")] + o.evaluated[assert_index("A1")] > 0 {
                if let Some(pi) = PERMS3.iter().position(|p| p[..] == origs[..]) {
                    self.probes[P_ORDER + pi] += 1;
                }
            }
            if nodup && mask != 0b111 && o.evaluated[assert_index("A4")] > 0 {
                let dropped = (!mask) & 0b111;
                self.probes[P_DROP + dropped as usize - 1] += 1;
            }
            if nodup && mask == 0b111 && unknowns == 1 && o.evaluated[assert_index("A5")] > 0 {
                if let Some(pos) = o.top_order.iter().position(|x| x & 0x80 != 0) {
                    self.probes[P_UNKNOWN_POS + pos.min(3)] += 1;
                }
            }
        }
        if nf == 0 && !has_patch && o.evaluated[assert_index("A1")] > 0 && o.failure.is_none() && o.read_ok == Some(true) {
            self.probes[P_TYPE + ti + if is_json { n_types } else { 0 }] += 1;
            let gen: &[u64] = match plan {
                AnyPlan::Event(p) => &p.gen,
                AnyPlan::Json(p) => &p.gen,
                AnyPlan::Session(_) => &[],
            };
            let beyond = e.gen_kinds.iter().zip(gen.iter()).any(|((k, _), b)| {
                matches!(k, Kind::I128 | Kind::U128)
                    && crate::node::wide::try_decode(*b).map(|v| if *k == Kind::I128 { i64::try_from(v).is_err() } else { u64::try_from(v as u128).is_err() }).unwrap_or(false)
            });
            if beyond {
                self.probes[P_WIDE + is_json as usize] += 1;
            }
        }
    }
}

/// Result of one run (a single operation or a session).
#[derive(Default)]
pub struct RunOut {
    /// (type index, operation plan, its outcome), in execution order
    pub ops: Vec<(usize, AnyPlan, Outcome)>,
    pub failure: Option<Failure>,
    pub harness_error: Option<String>,
    pub log_hash: u64,
    pub sig: u64,
    pub nontrivial: bool,
}

// ---- running ---------------------------------------------------------------------------------

pub struct Batch {
    pub reg: Vec<TypeEntry>,
    pub sweep: Vec<Plan>,
    pub jsweep: Vec<JPlan>,
    pub seed: u64,
}

impl Batch {
    pub fn new(seed: u64) -> Batch {
        let reg = registry();
        let sweep = sweep_plans(&reg);
        let jsweep = sweep_jplans(&reg);
        // From here on a panic inside the code under test is caught and judged by the oracle; keep
        // stderr quiet. (A panic before this point is a harness bug and must be seen.)
        std::panic::set_hook(Box::new(|_| {}));
        Batch { reg, sweep, jsweep, seed }
    }

    pub fn sweep_len(&self) -> u64 {
        (self.sweep.len() + self.jsweep.len()) as u64
    }

    /// Run index -> plan. Sweeps first (event lane, then byte lane), then the seeded lanes:
    /// one run in four goes to the byte lane (it costs about ten times as much).
    pub fn plan_for(&self, run: u64) -> AnyPlan {
        let r = run as usize;
        if r < self.sweep.len() {
            AnyPlan::Event(self.sweep[r].clone())
        } else if r < self.sweep.len() + self.jsweep.len() {
            AnyPlan::Json(self.jsweep[r - self.sweep.len()].clone())
        } else if run % 16 == 5 {
            // a session: 2..=5 operations back to back on the same thread
            let mut rng = crate::rng::Rng::from_seed_run(self.seed ^ 0x5E55_1014, run);
            let n = 2 + rng.usize_below(4);
            let ops = (0..n)
                .map(|j| {
                    let sub = run.wrapping_mul(8).wrapping_add(j as u64) ^ 0x8000_0000_0000_0000;
                    if rng.chance(1, 4) {
                        AnyPlan::Json(random_jplan(&self.reg, self.seed, sub))
                    } else {
                        AnyPlan::Event(random_plan(&self.reg, self.seed, sub))
                    }
                })
                .collect();
            AnyPlan::Session(ops)
        } else if run % 4 == 3 {
            AnyPlan::Json(random_jplan(&self.reg, self.seed, run))
        } else {
            AnyPlan::Event(random_plan(&self.reg, self.seed, run))
        }
    }

    fn run_op(&self, plan: &AnyPlan, opts: RunOpts, out: &mut RunOut) {
        match plan {
            AnyPlan::Session(ops) => {
                for p in ops {
                    self.run_op(p, opts, out);
                }
            }
            AnyPlan::Event(p) => {
                if let Some(ti) = self.type_index(&p.ty) {
                    let o = self.reg[ti].run(p, opts);
                    out.ops.push((ti, plan.clone(), o));
                } else {
                    out.harness_error = Some(format!("unknown type {}", p.ty));
                }
            }
            AnyPlan::Json(p) => {
                if let Some(ti) = self.type_index(&p.ty) {
                    let o = self.reg[ti].run_json(p, opts);
                    out.ops.push((ti, plan.clone(), o));
                } else {
                    out.harness_error = Some(format!("unknown type {}", p.ty));
                }
            }
        }
    }

    pub fn run_any(&self, plan: &AnyPlan, opts: RunOpts) -> RunOut {
        let mut out = RunOut::default();
        self.run_op(plan, opts, &mut out);
        let n = out.ops.len();
        let mut log = crate::rng::Fnv::default();
        let mut sig = crate::rng::Fnv::default();
        for (k, (_, _, o)) in out.ops.iter().enumerate() {
            log.u64(o.log_hash);
            sig.u64(o.sig);
            out.nontrivial |= o.nontrivial;
            if out.harness_error.is_none() {
                out.harness_error = o.harness_error.clone();
            }
            if out.failure.is_none() {
                if let Some(f) = &o.failure {
                    out.failure = Some(if n > 1 {
                        Failure { assert_id: f.assert_id, observed: format!("operation {} of {}: {}", k + 1, n, f.observed) }
                    } else {
                        f.clone()
                    });
                }
            }
        }
        if n == 1 {
            out.log_hash = out.ops[0].2.log_hash;
            out.sig = out.ops[0].2.sig;
        } else {
            out.log_hash = log.finish();
            out.sig = sig.finish();
        }
        out
    }

    fn fails_same(&self, plan: &AnyPlan, assert_id: &str) -> bool {
        let r = self.run_any(plan, RunOpts::default());
        r.harness_error.is_none() && r.failure.as_ref().map(|f| f.assert_id) == Some(assert_id)
    }

    /// Greedy shrink of any plan while the same assertion id keeps failing. Sessions first lose
    /// operations, then each remaining operation is shrunk in place.
    pub fn shrink_any(&self, plan: &AnyPlan, assert_id: &str) -> (AnyPlan, u32) {
        match plan {
            AnyPlan::Event(p) => {
                let (q, n) = shrink(p, assert_id, &self.reg);
                (AnyPlan::Event(q), n)
            }
            AnyPlan::Json(p) => {
                let (q, n) = shrink_j(p, assert_id, &self.reg);
                (AnyPlan::Json(q), n)
            }
            AnyPlan::Session(ops) => {
                let mut cur = ops.clone();
                let mut steps = 0;
                'outer: loop {
                    for i in 0..cur.len() {
                        if cur.len() > 1 {
                            let mut c = cur.clone();
                            c.remove(i);
                            if self.fails_same(&AnyPlan::Session(c.clone()), assert_id) {
                                cur = c;
                                steps += 1;
                                continue 'outer;
                            }
                        }
                    }
                    break;
                }
                if cur.len() == 1 {
                    let (q, n) = self.shrink_any(&cur[0], assert_id);
                    return (q, steps + n);
                }
                // shrink each operation in place, judged by the whole session
                let mut budget = 600;
                'again: loop {
                    for i in 0..cur.len() {
                        let cands: Vec<AnyPlan> = match &cur[i] {
                            AnyPlan::Event(p) => shrink_candidates(p, &self.reg).into_iter().map(AnyPlan::Event).collect(),
                            AnyPlan::Json(p) => shrink_candidates_j(p, &self.reg).into_iter().map(AnyPlan::Json).collect(),
                            AnyPlan::Session(_) => vec![],
                        };
                        for c in cands {
                            if budget == 0 {
                                break 'again;
                            }
                            budget -= 1;
                            let mut t = cur.clone();
                            t[i] = c;
                            if self.fails_same(&AnyPlan::Session(t.clone()), assert_id) {
                                cur = t;
                                steps += 1;
                                continue 'again;
                            }
                        }
                    }
                    break;
                }
                (AnyPlan::Session(cur), steps)
            }
        }
    }

    fn type_index(&self, name: &str) -> Option<usize> {
        self.reg.iter().position(|e| e.name == name)
    }

    fn run_range(&self, from: u64, to: u64, threads: usize, keep_hashes: bool) -> Agg {
        let ps = ProbeSpace::new(&self.reg);
        let next = AtomicU64::new(from);
        const CHUNK: u64 = 512;
        let mut total = Agg::new(ps.len(), keep_hashes);
        let parts: Vec<Agg> = std::thread::scope(|s| {
            let hs: Vec<_> = (0..threads.max(1))
                .map(|_| {
                    s.spawn(|| {
                        let mut agg = Agg::new(ps.len(), keep_hashes);
                        loop {
                            let a = next.fetch_add(CHUNK, Ordering::Relaxed);
                            if a >= to {
                                break;
                            }
                            let b = (a + CHUNK).min(to);
                            for run in a..b {
                                let plan = self.plan_for(run);
                                let r = self.run_any(&plan, RunOpts::default());
                                for (ti, p, o) in &r.ops {
                                    agg.record_op(run, &self.reg[*ti], *ti, self.reg.len(), p, o);
                                }
                                agg.record_run(run, &plan, &r);
                            }
                        }
                        agg
                    })
                })
                .collect();
            hs.into_iter().map(|h| h.join().expect("worker panicked")).collect()
        });
        for p in parts {
            total.merge(p);
        }
        total
    }
}

fn arg_val<'a>(args: &'a [String], name: &str) -> Option<&'a str> {
    args.iter().position(|a| a == name).and_then(|i| args.get(i + 1)).map(|s| s.as_str())
}

fn seed_from(args: &[String]) -> u64 {
    if let Some(s) = arg_val(args, "--seed") {
        return s.parse().unwrap_or(DEFAULT_SEED);
    }
    match std::env::var("VERIF_SEED") {
        Ok(s) if !s.trim().is_empty() => s.trim().parse().unwrap_or(DEFAULT_SEED),
        _ => DEFAULT_SEED,
    }
}

fn threads_from(args: &[String]) -> usize {
    arg_val(args, "--threads")
        .and_then(|s| s.parse().ok())
        .unwrap_or_else(|| std::thread::available_parallelism().map(|n| n.get()).unwrap_or(4))
}

fn op_trace_json(plan: &AnyPlan, o: &Outcome) -> Value {
    let d = o.detail.clone().unwrap_or_default();
    json!({
        "lane": plan.lane(),
        "type": plan.ty(),
        "value": d.value,
        "medium_holds": d.stored,
        "serialize_returned": d.write_result,
        "deserialize_returned": d.read_result,
        "write_steps": d.wtrace.iter().map(|(w, dep)| format!("{:?}@{}", w, dep)).collect::<Vec<_>>(),
        "read_steps": d.rtrace.iter().map(|(w, dep)| format!("{:?}@{}", w, dep)).collect::<Vec<_>>(),
        "write_faults_fired": o.wfired.iter().map(|f| format!("{:?} at step {} ({:?}, depth {})", f.kind, f.step, f.what, f.depth)).collect::<Vec<_>>(),
        "read_errors_fired": o.rfired.iter().map(|f| format!("step {} ({:?}, depth {}, permanent={}, top-level fields delivered so far mask={:03b})", f.step, f.what, f.depth, f.permanent, f.top_done)).collect::<Vec<_>>(),
        "top_level_delivery": o.top_order,
        "assertions_evaluated": ASSERT_IDS.iter().enumerate().filter(|(i, _)| o.evaluated[*i] > 0).map(|(_, a)| *a).collect::<Vec<_>>(),
        "failure": o.failure.as_ref().map(|f| json!({"assert_id": f.assert_id, "observed": f.observed})),
    })
}

fn trace_json(b: &Batch, plan: &AnyPlan) -> Value {
    let r = b.run_any(plan, RunOpts { trace: true });
    if r.ops.len() == 1 {
        op_trace_json(&r.ops[0].1, &r.ops[0].2)
    } else {
        json!({
            "lane": "session",
            "operations": r.ops.iter().map(|(_, p, o)| op_trace_json(p, o)).collect::<Vec<_>>(),
            "failure": r.failure.as_ref().map(|f| json!({"assert_id": f.assert_id, "observed": f.observed})),
        })
    }
}

#[derive(serde::Deserialize)]
struct KnownFinding {
    property: String,
    assert_id: String,
    ty: String,
    what: String,
}

fn load_known(path: Option<&str>) -> Vec<KnownFinding> {
    let p = match path {
        Some(p) => p,
        None => return vec![],
    };
    let text = match std::fs::read_to_string(p) {
        Ok(t) => t,
        Err(_) => return vec![],
    };
    let v: Value = match serde_json::from_str(&text) {
        Ok(v) => v,
        Err(e) => {
            eprintln!("HARNESS-ERROR: cannot parse known-findings file {}: {}", p, e);
            std::process::exit(2);
        }
    };
    v.get("findings")
        .and_then(|f| f.as_array())
        .map(|a| a.iter().filter_map(|x| serde_json::from_value(x.clone()).ok()).collect())
        .unwrap_or_default()
}

pub fn cmd_batch(args: &[String]) -> i32 {
    let t0 = Instant::now();
    let tier = arg_val(args, "--tier").unwrap_or("quick").to_string();
    let seed = seed_from(args);
    let threads = threads_from(args);
    let evidence = arg_val(args, "--evidence").unwrap_or("/verif/evidence/C20.json").to_string();
    let replay_dir = arg_val(args, "--replay-dir").unwrap_or("/verif/replays").to_string();
    let known = load_known(arg_val(args, "--known"));
    let default_runs: u64 = if tier == "thorough" { 240_000_000 } else { 1_500_000 };
    let random_runs: u64 = arg_val(args, "--runs").and_then(|s| s.parse().ok()).unwrap_or(default_runs);

    println!("VERIF_SEED={} tier={} threads={} build_configuration={}", seed, tier, threads, build_config());
    let b = Batch::new(seed);
    let total = b.sweep_len() + random_runs;
    println!("sweep_runs={} (event {} + bytes {}) random_runs={} types={}", b.sweep_len(), b.sweep.len(), b.jsweep.len(), random_runs, b.reg.len());
    let agg = b.run_range(0, total, threads, false);
    let wall_runs = t0.elapsed().as_secs_f64();

    let ps = ProbeSpace::new(&b.reg);
    let mut exit_code = 0;
    // the exotic lane: Decomposed over types from outside cgmath (fixed enumeration, no PRNG)
    let exotic = crate::exotic::run_all(None);

    // harness errors first: nothing else is believed if the simulator itself is broken
    if !agg.harness_errors.is_empty() {
        for (run, h) in &agg.harness_errors {
            println!("HARNESS-ERROR run={} {}", run, h);
        }
        exit_code = 2;
    }

    // violations
    let mut violations = 0;
    let mut violation_lines = Vec::new();
    let mut known_lines = Vec::new();
    if exit_code == 0 {
        let _ = std::fs::create_dir_all(&replay_dir);
        for (id, rec) in &agg.failures {
            if let Some(k) = known.iter().find(|k| k.property == PROPERTY && k.assert_id == *id && k.ty == rec.plan.ty()) {
                known_lines.push(format!("KNOWN-FINDING: property={} {} [{} on {}]", PROPERTY, k.what, id, rec.plan.ty()));
                continue;
            }
            let (small, steps) = b.shrink_any(&rec.plan, id);
            let o = b.run_any(&small, RunOpts::default());
            let f = o.failure.clone().unwrap_or_else(|| rec.failure.clone());
            let path = format!("{}/C20-{}-{}-{}-{}.json", replay_dir, build_config(), seed, rec.run, id);
            let write_doc = |plan: &AnyPlan, f: &Failure, steps: u32| -> bool {
                let doc = json!({
                    "property": PROPERTY,
                    "build_configuration": build_config(),
                    "lane": plan.lane(),
                    "seed": seed,
                    "run": rec.run,
                    "assert_id": f.assert_id,
                    "observed": f.observed,
                    "plan": plan,
                    "shrink_steps": steps,
                    "original_plan": rec.plan,
                    "original_observed": rec.failure.observed,
                    "trace": trace_json(&b, plan),
                    "how_to_replay": format!("/verif/check C20 --replay {}", path),
                });
                std::fs::write(&path, serde_json::to_string_pretty(&doc).unwrap()).is_ok()
            };
            let replays = |extra: &[&str]| -> bool {
                let exe = std::env::current_exe().unwrap();
                let st = std::process::Command::new(exe).arg("replay").arg(&path).args(extra).output();
                matches!(st, Ok(out) if out.status.code() == Some(1))
            };
            // the minimised file must reproduce the same violation in a fresh process
            let mut confirmed: Option<(String, String)> = None;
            if write_doc(&small, &f, steps) && replays(&["--expect-exact"]) {
                confirmed = Some((small.ty().to_string(), f.observed.clone()));
            } else if write_doc(&rec.plan, &rec.failure, 0) && replays(&["--expect-exact"]) {
                // shrinking went astray (it should not): fall back to the plan as generated
                confirmed = Some((rec.plan.ty().to_string(), rec.failure.observed.clone()));
            } else {
                // The failing run does not fail when executed alone in a fresh process: the code
                // under test keeps state between calls. Replay the history instead: every run
                // from 0 up to the failing one, in index order, on one thread.
                let doc = json!({
                    "property": PROPERTY,
                    "build_configuration": build_config(),
                    "lane": "history",
                    "seed": seed,
                    // the batch ran on several threads: which run trips over state left behind by
                    // earlier calls depends on who ran what; sequentially it may be a later one
                    "upto": total - 1,
                    "failed_in_batch_at_run": rec.run,
                    "assert_id": id,
                    "observed": rec.failure.observed,
                    "note": "the failing run passes when executed alone: the violation depends on calls made earlier in the same process; replay executes runs 0..=upto sequentially on one thread and reports the first run failing this assertion",
                    "how_to_replay": format!("/verif/check C20 --replay {}", path),
                });
                if std::fs::write(&path, serde_json::to_string_pretty(&doc).unwrap()).is_ok() && replays(&[]) {
                    confirmed = Some((rec.plan.ty().to_string(), format!("(history-dependent) {}", rec.failure.observed)));
                } else {
                    // Not even the sequential history fails: the violation needs several threads inside
                    // cgmath's code at once. cgmath has no synchronisation seam the simulator could own,
                    // so this schedule is NOT under the simulator's control; the replay re-runs the
                    // whole batch on the same number of threads, several times, and is statistical.
                    let doc = json!({
                        "property": PROPERTY,
                        "build_configuration": build_config(),
                        "lane": "concurrent",
                        "seed": seed,
                        "total_runs": total,
                        "threads": threads,
                        "attempts": 6,
                        "failed_in_batch_at_run": rec.run,
                        "assert_id": id,
                        "observed": rec.failure.observed,
                        "note": "fails only when several worker threads (de)serialize at the same time: shared mutable state in the code under test. Replay is statistical (real threads, uncontrolled interleaving): the batch is re-run up to `attempts` times.",
                        "how_to_replay": format!("/verif/check C20 --replay {}", path),
                    });
                    if std::fs::write(&path, serde_json::to_string_pretty(&doc).unwrap()).is_ok() && replays(&[]) {
                        confirmed = Some((rec.plan.ty().to_string(), format!("(only with concurrent callers) {}", rec.failure.observed)));
                    }
                }
            }
            match confirmed {
                Some((ty, observed)) => {
                    violations += 1;
                    violation_lines.push(format!(
                        "VIOLATION property={} replay={}  [{} on {} (run {}, {} lane, {} build): {}]",
                        PROPERTY, path, id, ty, rec.run, rec.plan.lane(), build_config(), observed
                    ));
                }
                None => {
                    println!("HARNESS-ERROR run {} failed {} in the batch but neither its plan nor the sequential history reproduces it in a fresh process", rec.run, id);
                    exit_code = 2;
                }
            }
        }
    }

    if exit_code == 0 {
        // one report per (case, assertion): the first failing scenario
        let mut seen: Vec<(String, &'static str)> = Vec::new();
        for f in &exotic.failures {
            if seen.iter().any(|(c, a)| *c == f.case && *a == f.assert_id) {
                continue;
            }
            seen.push((f.case.clone(), f.assert_id));
            if seen.len() > 8 {
                break;
            }
            let tag: String = f.case.chars().map(|c| if c.is_ascii_alphanumeric() { c } else { '_' }).collect();
            let path = format!("{}/C20-{}-exotic-{}-{}.json", replay_dir, build_config(), tag, f.assert_id);
            let doc = json!({
                "property": PROPERTY,
                "build_configuration": build_config(),
                "lane": "exotic",
                "case": f.case,
                "scenario": f.scenario,
                "assert_id": f.assert_id,
                "observed": f.observed,
                "how_to_replay": format!("/verif/check C20 --replay {}", path),
            });
            let exe = std::env::current_exe().unwrap();
            let ok = std::fs::write(&path, serde_json::to_string_pretty(&doc).unwrap()).is_ok()
                && matches!(std::process::Command::new(exe).arg("replay").arg(&path).output(), Ok(o) if o.status.code() == Some(1));
            if ok {
                violations += 1;
                violation_lines.push(format!(
                    "VIOLATION property={} replay={}  [{} on Decomposed with {} (exotic lane, {} build): {}: {}]",
                    PROPERTY, path, f.assert_id, f.case, build_config(), f.scenario, f.observed
                ));
            } else {
                // neither the case nor the lane alone fails in a fresh process: the code under test
                // carried state over from the main lanes. Replay the whole history: every run in
                // index order on one thread, then the exotic lane.
                let doc = json!({
                    "property": PROPERTY,
                    "build_configuration": build_config(),
                    "lane": "history",
                    "seed": seed,
                    "upto": total - 1,
                    "then_exotic": true,
                    "assert_id": f.assert_id,
                    "observed": f.observed,
                    "note": "an exotic-lane case failed in the batch but passes in a fresh process: the violation depends on calls made earlier in the same process",
                    "how_to_replay": format!("/verif/check C20 --replay {}", path),
                });
                let exe = std::env::current_exe().unwrap();
                let ok2 = std::fs::write(&path, serde_json::to_string_pretty(&doc).unwrap()).is_ok()
                    && matches!(std::process::Command::new(exe).arg("replay").arg(&path).output(), Ok(o) if o.status.code() == Some(1));
                if ok2 {
                    violations += 1;
                    violation_lines.push(format!(
                        "VIOLATION property={} replay={}  [{} on Decomposed with {} (exotic lane, {} build): (history-dependent) {}: {}]",
                        PROPERTY, path, f.assert_id, f.case, build_config(), f.scenario, f.observed
                    ));
                } else if violations > 0 {
                    println!("NOTE exotic failure {} / {} did not replay on its own; the violations above already stand", f.case, f.scenario);
                } else {
                    println!("HARNESS-ERROR exotic failure {} / {} does not replay", f.case, f.scenario);
                    exit_code = 2;
                }
            }
        }
    }

    // probes that never fired: the workload must change, the result is not trusted
    let mut zero_probes = Vec::new();
    for (i, n) in agg.probes.iter().enumerate() {
        if *n == 0 {
            zero_probes.push(ps.names[i].clone());
        }
    }
    // a probe can only be demanded when the run that would hit it did not fail first
    if violations == 0 && exit_code == 0 && !zero_probes.is_empty() {
        for z in &zero_probes {
            println!("HARNESS-ERROR probe never fired: {}", z);
        }
        exit_code = 2;
    }

    for l in &known_lines {
        println!("{}", l);
    }
    for l in &violation_lines {
        println!("{}", l);
    }
    if violations > 0 && exit_code == 0 {
        exit_code = 1;
    }

    // samples: the first run (by index) that evaluated each assertion, re-run with tracing
    let mut samples = Vec::new();
    for (i, a) in ASSERT_IDS.iter().enumerate() {
        if agg.first_eval[i] != u64::MAX {
            let run = agg.first_eval[i];
            let plan = b.plan_for(run);
            samples.push(json!({"run": run, "first_run_evaluating": a, "plan": plan, "trace": trace_json(&b, &plan)}));
        }
    }
    // plus one random-lane run so that the generator's output is visible
    {
        for run in [b.sweep_len() + 8, b.sweep_len() + 7] {
            if run < total {
                let plan = b.plan_for(run);
                samples.push(json!({"run": run, "first_run_evaluating": "(seeded lane example)", "plan": plan, "trace": trace_json(&b, &plan)}));
            }
        }
    }

    let wall = t0.elapsed().as_secs_f64();
    let steps = agg.wsteps + agg.rsteps;
    let fired: BTreeMap<&str, u64> = FAULT_KINDS.iter().enumerate().map(|(i, k)| (*k, agg.fired[i])).collect();
    let evaluated: BTreeMap<&str, u64> = ASSERT_IDS.iter().enumerate().map(|(i, k)| (*k, agg.evaluated[i])).collect();
    let probes: BTreeMap<&str, u64> = ps.names.iter().enumerate().take(P_TYPE).map(|(i, k)| (k.as_str(), agg.probes[i])).collect();
    let type_probe_min = agg.probes[P_TYPE..P_TYPE + ps.n_types].iter().min().copied().unwrap_or(0);
    let doc = json!({
        "property_id": PROPERTY,
        "tier": tier,
        "seed": seed,
        "level": "fault_enumeration",
        "build_configuration": build_config(),
        "wall_s": wall,
        "violations": violations,
        "coverage": {
            "evaluations": agg.runs,
            "distinct_nontrivial": agg.sigs_nontrivial.len(),
            "distinct_schedules": agg.sigs.len(),
            "rule": "One evaluation = one simulated run: a value of one cgmath type is serialized through SimStore (every Serializer call is a write step that the fault plan may fail) and the stored record is deserialized through SimSource (every next_key/next_value/next_element/leaf is a read step; the plan decides delivery order, omissions, injected unknown entries, duplicates and failing steps). Runs 0..sweep_runs are a deterministic enumeration (every single write-fault and read-error position for every type x framing x newtype mode; every ordered arrangement of every subset of Decomposed's three fields, with and without an unknown entry at every position, for every key form); the rest are drawn from xoshiro256** seeded by (VERIF_SEED, run index). Two runs are the same schedule when (type, medium configuration, fired write faults with step and kind, serialize Ok/Err, delivered entry order of every record opened during the read including injected entries by key and value kind, fired read errors with step, patched-or-not) coincide; leaf values do not count. distinct_nontrivial counts distinct schedules in which at least one fault fired or one record was delivered in a non-identity order.",
            "exhaustive": false,
            "sweep_runs": b.sweep_len(),
            "sweep_runs_event_lane": b.sweep.len(),
            "sweep_runs_byte_lane": b.jsweep.len(),
            "runs_event_lane": agg.lane_runs[0],
            "runs_byte_lane": agg.lane_runs[1],
            "byte_lane_runs_where_serde_json_itself_does_not_round_trip_a_std_float": agg.format_lossy,
            "random_runs": random_runs,
            "runs_per_second": agg.runs as f64 / wall_runs.max(1e-9),
            "seeds_per_hour": (agg.runs as f64 / wall_runs.max(1e-9) * 3600.0) as u64,
            "simulated_time": {"unit": "medium steps (cgmath has no clock; one step = one Serializer/Deserializer/MapAccess/SeqAccess call reaching the simulated medium)", "write_steps": agg.wsteps, "read_steps": agg.rsteps, "total": steps},
            "faults_fired": fired,
            "runs_by_number_of_faults_fired": {"0": agg.runs_with_fault[0], "1": agg.runs_with_fault[1], "2": agg.runs_with_fault[2], "3+": agg.runs_with_fault[3]},
            "assertions_evaluated": evaluated,
            "serialize_results": {"ok": agg.write_ok, "err": agg.write_err},
            "deserialize_results": {"ok": agg.read_ok, "err": agg.read_err},
            "probes": probes,
            "probe_every_type_fault_free_round_trip_min_count": type_probe_min,
            "types_driven": b.reg.iter().map(|e| e.name.clone()).collect::<Vec<_>>(),
            "runs_per_type_family": agg.per_family,
            "exotic_lane": {
                "what": "Decomposed<V, R> with V / R from outside cgmath (std types, tuples, arrays, options, a user enum, a user vector space, a struct whose field names collide with scale/rot/disp, a nested Decomposed): every order, omission, unknown key, single write fault, single read error on five medium configurations, plus serde_json incl. every truncation; fixed enumeration",
                "cases": exotic.cases,
                "evaluations": exotic.evaluations,
                "failures": exotic.failures.len(),
                "case_names": exotic.case_names,
            },
            "batch_digest": format!("{:016x}", agg.digest),
            "real_components": ["cgmath Serialize/Deserialize impls (hand-written Decomposed impl in src/transform.rs + serde_derive output for every other type), built from /repo's working tree with feature serde", "serde / serde_core / serde_derive 1.0.229"],
            "stub_components": ["SimStore (serde::Serializer) and SimSource (serde::Deserializer): the simulated medium, /verif/sim/src/{store,source}.rs", "fault plans and seeded generator, /verif/sim/src/gen.rs", "reference model: Shape + leaf bits built and read through public fields and constructors only, /verif/sim/src/subject.rs"],
            "samples": samples,
        },
        "assumptions": [
            "serde's trait contracts: any Serializer/Deserializer method may return Err; a keyed medium may deliver entries in any order",
            "the reference model (public field names and leaf order per type) in /verif/sim/src/subject.rs is written by hand from the public API",
            "seeded sampling plus single-fault enumeration: a clean batch is evidence over the schedules explored, not a proof",
        ],
    });
    if let Some(dir) = std::path::Path::new(&evidence).parent() {
        let _ = std::fs::create_dir_all(dir);
    }
    if let Err(e) = std::fs::write(&evidence, serde_json::to_string_pretty(&doc).unwrap()) {
        println!("HARNESS-ERROR cannot write evidence {}: {}", evidence, e);
        exit_code = 2;
    }
    println!(
        "runs={} distinct_schedules={} nontrivial={} steps={} faults_fired={} failures_seen={} digest={:016x} wall_s={:.2}",
        agg.runs,
        agg.sigs.len(),
        agg.sigs_nontrivial.len(),
        steps,
        agg.fired.iter().sum::<u64>(),
        agg.n_failures,
        agg.digest,
        wall
    );
    if exit_code == 0 {
        println!("OK property={} held on everything explored", PROPERTY);
    }
    exit_code
}

pub fn cmd_replay(args: &[String]) -> i32 {
    let path = match args.first() {
        Some(p) => p,
        None => return 2,
    };
    let exact = args.iter().any(|a| a == "--expect-exact");
    let text = match std::fs::read_to_string(path) {
        Ok(t) => t,
        Err(e) => {
            println!("HARNESS-ERROR cannot read {}: {}", path, e);
            return 2;
        }
    };
    let doc: Value = match serde_json::from_str(&text) {
        Ok(v) => v,
        Err(e) => {
            println!("HARNESS-ERROR cannot parse {}: {}", path, e);
            return 2;
        }
    };
    let want_id = doc["assert_id"].as_str().unwrap_or("").to_string();
    let want_obs = doc["observed"].as_str().unwrap_or("").to_string();
    if doc["lane"].as_str() == Some("history") {
        let seed = doc["seed"].as_u64().unwrap_or(DEFAULT_SEED);
        let upto = doc["upto"].as_u64().unwrap_or(0);
        let b = Batch::new(seed);
        for run in 0..=upto {
            let plan = b.plan_for(run);
            let r = b.run_any(&plan, RunOpts::default());
            if let Some(f) = &r.failure {
                if f.assert_id == want_id {
                    println!("history replay: run {} of 0..={} fails {}: {}", run, upto, f.assert_id, f.observed);
                    println!("{}", serde_json::to_string_pretty(&json!({"run": run, "plan": plan})).unwrap());
                    println!("REPRODUCED assert={} (sequential history)", f.assert_id);
                    println!("VIOLATION property={} replay={}", PROPERTY, path);
                    return 1;
                }
            }
        }
        if doc["then_exotic"].as_bool() == Some(true) {
            let rep = crate::exotic::run_all(None);
            if let Some(f) = rep.failures.iter().find(|f| f.assert_id == want_id) {
                println!("history replay, exotic lane after runs 0..={}: {} / {}: {} {}", upto, f.case, f.scenario, f.assert_id, f.observed);
                println!("REPRODUCED assert={} (sequential history)", f.assert_id);
                println!("VIOLATION property={} replay={}", PROPERTY, path);
                return 1;
            }
        }
        println!("NOT-REPRODUCED no run in 0..={} fails {} when executed sequentially on this tree", upto, want_id);
        return if exact { 2 } else { 0 };
    }
    if doc["lane"].as_str() == Some("exotic") {
        let case = doc["case"].as_str().unwrap_or("");
        let scen = doc["scenario"].as_str().unwrap_or("");
        let rep = crate::exotic::run_all(Some(case));
        for f in &rep.failures {
            if f.assert_id == want_id && (f.scenario == scen || !exact) {
                println!("exotic replay: {} / {}: {} {}", f.case, f.scenario, f.assert_id, f.observed);
                println!("REPRODUCED assert={}", f.assert_id);
                println!("VIOLATION property={} replay={}", PROPERTY, path);
                return 1;
            }
        }
        // the case alone passes: the failure may depend on calls made earlier; run the whole lane
        let rep_all = crate::exotic::run_all(None);
        if let Some(f) = rep_all.failures.iter().find(|f| f.assert_id == want_id) {
            println!("exotic replay (whole lane, in order): {} / {}: {} {}", f.case, f.scenario, f.assert_id, f.observed);
            println!("REPRODUCED assert={} (history-dependent)", f.assert_id);
            println!("VIOLATION property={} replay={}", PROPERTY, path);
            return 1;
        }
        println!("NOT-REPRODUCED exotic case {:?} passes on this tree ({} evaluations)", case, rep.evaluations);
        return if exact { 2 } else { 0 };
    }
    if doc["lane"].as_str() == Some("concurrent") {
        let seed = doc["seed"].as_u64().unwrap_or(DEFAULT_SEED);
        let total = doc["total_runs"].as_u64().unwrap_or(0);
        let threads = doc["threads"].as_u64().unwrap_or(16) as usize;
        let attempts = doc["attempts"].as_u64().unwrap_or(6);
        let b = Batch::new(seed);
        for a in 0..attempts {
            let agg = b.run_range(0, total, threads.max(2), false);
            if let Some(rec) = agg.failures.get(want_id.as_str()) {
                println!("concurrent replay: attempt {} of {}: run {} fails {}: {}", a + 1, attempts, rec.run, want_id, rec.failure.observed);
                println!("REPRODUCED assert={} (statistical, {} threads)", want_id, threads);
                println!("VIOLATION property={} replay={}", PROPERTY, path);
                return 1;
            }
        }
        println!("NOT-REPRODUCED {} attempts of the batch on {} threads did not fail {}", attempts, threads, want_id);
        return if exact { 2 } else { 0 };
    }
    let plan: AnyPlan = match serde_json::from_value(doc["plan"].clone()) {
        Ok(p) => p,
        Err(e) => {
            println!("HARNESS-ERROR bad plan in {}: {}", path, e);
            return 2;
        }
    };
    let want_id = want_id.as_str();
    let want_obs = want_obs.as_str();
    let b = Batch::new(0);
    let o = b.run_any(&plan, RunOpts::default());
    println!("{}", serde_json::to_string_pretty(&trace_json(&b, &plan)).unwrap());
    if let Some(h) = o.harness_error {
        println!("HARNESS-ERROR {}", h);
        return 2;
    }
    match o.failure {
        Some(f) if f.assert_id == want_id => {
            let same = f.observed == want_obs;
            println!("REPRODUCED assert={} exact={}", f.assert_id, same);
            if exact && !same {
                println!("recorded: {}\nnow:      {}", want_obs, f.observed);
                return 2;
            }
            println!("VIOLATION property={} replay={}", PROPERTY, path);
            1
        }
        Some(f) => {
            println!("DIFFERENT-FAILURE recorded={} now={} ({})", want_id, f.assert_id, f.observed);
            if exact {
                return 2;
            }
            println!("VIOLATION property={} replay={}", PROPERTY, path);
            1
        }
        None => {
            println!("NOT-REPRODUCED the recorded plan passes on this tree");
            if exact {
                2
            } else {
                0
            }
        }
    }
}

/// Per-run event-log hashes, for the determinism self-test (diffed across processes and
/// worker counts).
pub fn cmd_hashes(args: &[String]) -> i32 {
    let seed = seed_from(args);
    let threads = threads_from(args);
    let runs: u64 = arg_val(args, "--runs").and_then(|s| s.parse().ok()).unwrap_or(20_000);
    let b = Batch::new(seed);
    let from: u64 = arg_val(args, "--from").and_then(|s| s.parse().ok()).unwrap_or(b.sweep_len());
    let agg = b.run_range(from, from + runs, threads, true);
    let mut hs = agg.hashes.unwrap_or_default();
    hs.sort();
    let full = args.iter().any(|a| a == "--full");
    let mut d = crate::rng::Fnv::default();
    for (run, h) in &hs {
        d.u64(*run);
        d.u64(*h);
        if full {
            println!("{} {:016x}", run, h);
        }
    }
    println!("seed={} from={} runs={} digest={:016x} agg_digest={:016x} failures={}", seed, from, hs.len(), d.finish(), agg.digest, agg.n_failures);
    0
}

pub fn cmd_show(args: &[String]) -> i32 {
    let seed = seed_from(args);
    let run: u64 = arg_val(args, "--run").and_then(|s| s.parse().ok()).unwrap_or(0);
    let b = Batch::new(seed);
    let plan = b.plan_for(run);
    println!("{}", serde_json::to_string_pretty(&json!({"seed": seed, "run": run, "plan": plan, "trace": trace_json(&b, &plan)})).unwrap());
    0
}

pub fn cmd_list() -> i32 {
    let b = Batch::new(0);
    for e in &b.reg {
        let p = &e.probes[0];
        println!("{:50} leaves={:2} wsteps={:3} rsteps={:3} records={}", e.name, e.leaf_kinds.len(), p.wsteps, p.rsteps, p.records.len());
    }
    println!("sweep plans: event {} + bytes {}", b.sweep.len(), b.jsweep.len());
    0
}
