//! SimSource: the read side of the simulated medium. Implements `serde::Deserializer` over a
//! stored record; every call that reaches it (`next_key`, `next_value`, `next_element`, a leaf,
//! opening a record) is one *read step*. The fault plan decides what each record delivers —
//! order, omissions, injected entries, duplicates — and which steps fail.

use crate::medium::*;
use crate::node::*;
use crate::rng::Fnv;
use serde::de::{self, DeserializeSeed, Visitor};
use std::cell::RefCell;

const STEP_CAP: u32 = 8192;

#[derive(Clone, Copy, PartialEq, Eq, Debug)]
pub enum RStep {
    Leaf,
    Open,
    NextKey,
    NextValue,
    NextElement,
    Key,
    Misc,
}

#[derive(Clone, Copy, Debug)]
pub struct FiredR {
    pub step: u32,
    pub permanent: bool,
    pub what: RStep,
    pub depth: u8,
    /// bitmask of original top-level entries whose value had been delivered completely when the
    /// error fired
    pub top_done: u32,
    /// the step panicked instead of returning an error
    pub panic: bool,
}

#[derive(Clone, Copy, Debug, PartialEq, Eq)]
pub enum Deliver {
    Orig(u8),
    Unknown(u8), // index into the plan's fault list
}

/// Everything the read side records about one deserialization.
#[derive(Default)]
pub struct ReadState {
    pub step: u32,
    pub permanent: bool,
    pub fired: Vec<FiredR>,
    pub log: Fnv,
    /// original top-level entries whose value deserialized to completion
    pub top_done: u32,
    /// number of top-level entries of the stored record
    pub top_n: u32,
    /// (path, delivered order) of every record that was opened, for the schedule signature
    pub opened: Vec<(SmallPath, Vec<Deliver>)>,
    /// which structural faults of the plan were applied to a record that was actually opened
    pub applied: Vec<bool>,
    pub trace: Option<Vec<(RStep, u8)>>,
    /// the code under test kept calling although every step failed: it does not terminate
    pub runaway: bool,
    /// an injected panic fired during this read
    pub panicked: bool,
}

pub struct ReadEnv<'de> {
    pub cfg: Medium,
    pub root: &'de Node,
    pub faults: &'de [RFault],
    /// value nodes for `Unknown` faults, index-aligned with `faults` (Node::Unit where unused)
    pub unknown_vals: &'de [Node],
    pub st: RefCell<ReadState>,
}

pub fn unknown_value_node(val: UVal, record: Option<&Node>) -> Node {
    match val {
        UVal::Num => Node::num(Kind::F64, 42.5f64.to_bits()),
        UVal::Str => Node::Str("stale".to_string()),
        UVal::Rec => Node::Struct {
            name: "Stale".to_string(),
            declared_len: 2,
            entries: vec![
                ("x".to_string(), Node::num(Kind::F64, 1.0f64.to_bits())),
                ("y".to_string(), Node::num(Kind::F64, 2.0f64.to_bits())),
            ],
        },
        UVal::Seq => Node::Seq {
            tag: SeqTag::Seq,
            name: String::new(),
            declared_len: Some(2),
            items: vec![Node::num(Kind::U8, 1), Node::num(Kind::U8, 2)],
        },
        UVal::Unit => Node::Unit,
        UVal::CopyOf(i) => match record {
            Some(Node::Struct { entries, .. }) if !entries.is_empty() => {
                entries[(i as usize) % entries.len()].1.clone()
            }
            _ => Node::Unit,
        },
    }
}

/// Find the record a fault path points at.
pub fn node_at<'n>(root: &'n Node, path: &[u8]) -> Option<&'n Node> {
    let mut cur = root;
    for &i in path {
        cur = match skip_wrappers(cur) {
            Node::Struct { entries, .. } => &entries.get(i as usize)?.1,
            _ => return None,
        };
    }
    Some(skip_wrappers(cur))
}

pub fn skip_wrappers(mut n: &Node) -> &Node {
    loop {
        match n {
            Node::Newtype { inner, .. } => n = inner,
            Node::Some(inner) => n = inner,
            _ => return n,
        }
    }
}

impl<'de> ReadEnv<'de> {
    pub fn new(cfg: Medium, root: &'de Node, faults: &'de [RFault], unknown_vals: &'de [Node], trace: bool) -> Self {
        let mut st = ReadState::default();
        st.applied = vec![false; faults.len()];
        if let Node::Struct { entries, .. } = skip_wrappers(root) {
            st.top_n = entries.len() as u32;
        }
        if trace {
            st.trace = Some(Vec::new());
        }
        ReadEnv { cfg, root, faults, unknown_vals, st: RefCell::new(st) }
    }

    pub fn de(&'de self) -> De<'de> {
        De { env: self, node: self.root, path: SmallPath::root(), depth: 0 }
    }

    fn step(&self, what: RStep, depth: u8) -> Result<(), SimError> {
        let mut st = self.st.borrow_mut();
        let k = st.step;
        st.step += 1;
        st.log.u64(0x5200 | what as u64);
        st.log.u64(depth as u64);
        if let Some(t) = st.trace.as_mut() {
            t.push((what, depth));
        }
        if k >= STEP_CAP {
            if k >= STEP_CAP * 8 {
                st.runaway = true;
                drop(st);
                panic!("read side does not terminate");
            }
            return Err(SimError::Medium("read step cap exceeded"));
        }
        let top_done = st.top_done;
        if st.permanent {
            st.fired.push(FiredR { step: k, permanent: true, what, depth, top_done, panic: false });
            st.log.u64(0xFA17);
            return Err(SimError::Injected(k));
        }
        for f in self.faults {
            if let RFault::Panic { step } = f {
                if *step == k {
                    st.fired.push(FiredR { step: k, permanent: false, what, depth, top_done, panic: true });
                    st.log.u64(0xFA18);
                    st.panicked = true;
                    drop(st);
                    panic!("injected panic at read step {}", k);
                }
            }
            if let RFault::Err { step, permanent } = f {
                if *step == k {
                    if *permanent {
                        st.permanent = true;
                    }
                    st.fired.push(FiredR { step: k, permanent: *permanent, what, depth, top_done, panic: false });
                    st.log.u64(0xFA17);
                    return Err(SimError::Injected(k));
                }
            }
        }
        Ok(())
    }

    /// What the record at `path` (with `n` stored entries) delivers, in order.
    fn delivery(&self, path: SmallPath, n: usize) -> Vec<Deliver> {
        if !path.valid() || self.faults.is_empty() {
            return (0..n as u8).map(Deliver::Orig).collect();
        }
        let mut st = self.st.borrow_mut();
        delivery_order(self.faults, path.as_slice(), n, &mut st.applied)
    }
}

/// The delivery list of one record under a fault plan (shared by the event-level source and the
/// JSON text emitter).
pub fn delivery_order(faults: &[RFault], p: &[u8], n: usize, applied: &mut [bool]) -> Vec<Deliver> {
    let mut order: Vec<Deliver> = (0..n as u8).map(Deliver::Orig).collect();
    // 1. reorder (last one addressed to this record wins)
    for (fi, f) in faults.iter().enumerate() {
        if let RFault::Reorder { path: fp, perm } = f {
            if fp.as_slice() == p && is_perm(perm, n) {
                order = perm.iter().map(|&i| Deliver::Orig(i)).collect();
                applied[fi] = true;
            }
        }
    }
    // 2. drops
    for (fi, f) in faults.iter().enumerate() {
        if let RFault::Drop { path: fp, idx } = f {
            if fp.as_slice() == p {
                let before = order.len();
                order.retain(|d| match d {
                    Deliver::Orig(i) => !idx.contains(i),
                    _ => true,
                });
                if order.len() != before {
                    applied[fi] = true;
                }
            }
        }
    }
    // 3. splices, in plan order
    for (fi, f) in faults.iter().enumerate() {
        match f {
            RFault::Unknown { path: fp, pos, .. } if fp.as_slice() == p => {
                let at = (*pos as usize).min(order.len());
                order.insert(at, Deliver::Unknown(fi as u8));
                applied[fi] = true;
            }
            RFault::Dup { path: fp, idx, pos } if fp.as_slice() == p && (*idx as usize) < n => {
                let at = (*pos as usize).min(order.len());
                order.insert(at, Deliver::Orig(*idx));
                applied[fi] = true;
            }
            _ => {}
        }
    }
    order
}

fn is_perm(perm: &[u8], n: usize) -> bool {
    if perm.len() != n {
        return false;
    }
    let mut seen = [false; 32];
    for &i in perm {
        if (i as usize) >= n || i >= 32 || seen[i as usize] {
            return false;
        }
        seen[i as usize] = true;
    }
    true
}

#[derive(Clone, Copy)]
pub struct De<'de> {
    env: &'de ReadEnv<'de>,
    node: &'de Node,
    path: SmallPath,
    depth: u8,
}

impl<'de> De<'de> {
    fn child(&self, node: &'de Node, path: SmallPath) -> De<'de> {
        De { env: self.env, node, path, depth: self.depth.saturating_add(1) }
    }

    fn visit_num<V: Visitor<'de>>(self, kind: Kind, bits: u64, v: V) -> Result<V::Value, SimError> {
        self.env.step(RStep::Leaf, self.depth)?;
        {
            let mut st = self.env.st.borrow_mut();
            st.log.u64(kind.code());
            st.log.u64(bits);
        }
        match self.env.cfg.nums {
            NumDelivery::Typed => match kind {
                Kind::F32 => v.visit_f32(f32::from_bits(bits as u32)),
                Kind::F64 => v.visit_f64(f64::from_bits(bits)),
                Kind::I8 => v.visit_i8(bits as i64 as i8),
                Kind::I16 => v.visit_i16(bits as i64 as i16),
                Kind::I32 => v.visit_i32(bits as i64 as i32),
                Kind::I64 => v.visit_i64(bits as i64),
                Kind::U8 => v.visit_u8(bits as u8),
                Kind::U16 => v.visit_u16(bits as u16),
                Kind::U32 => v.visit_u32(bits as u32),
                Kind::U64 => v.visit_u64(bits),
                Kind::Bool => v.visit_bool(bits != 0),
                Kind::I128 => v.visit_i128(crate::node::wide::decode(bits)),
                Kind::U128 => v.visit_u128(crate::node::wide::decode(bits) as u128),
            },
            NumDelivery::Widened => match kind {
                Kind::F32 => v.visit_f64(f32::from_bits(bits as u32) as f64),
                Kind::F64 => v.visit_f64(f64::from_bits(bits)),
                Kind::I8 | Kind::I16 | Kind::I32 | Kind::I64 => v.visit_i64(bits as i64),
                Kind::U8 | Kind::U16 | Kind::U32 | Kind::U64 => v.visit_u64(bits),
                Kind::Bool => v.visit_bool(bits != 0),
                // a format without typed integers hands over the narrowest of its integer types
                Kind::I128 => {
                    let x = crate::node::wide::decode(bits);
                    match i64::try_from(x) {
                        Ok(n) => v.visit_i64(n),
                        Err(_) => v.visit_i128(x),
                    }
                }
                Kind::U128 => {
                    let x = crate::node::wide::decode(bits) as u128;
                    match u64::try_from(x) {
                        Ok(n) => v.visit_u64(n),
                        Err(_) => v.visit_u128(x),
                    }
                }
            },
        }
    }

    fn visit_text<V: Visitor<'de>>(self, s: &'de str, v: V) -> Result<V::Value, SimError> {
        self.env.step(RStep::Leaf, self.depth)?;
        let form = if self.env.cfg.key_form.is_bytes() { KeyForm::Str } else { self.env.cfg.key_form };
        deliver_str(form, s, v)
    }

    fn record<V: Visitor<'de>>(
        self,
        entries: &'de [(String, Node)],
        declared_len: usize,
        positional_limit: Option<usize>,
        declared_fields: Option<&'static [&'static str]>,
        v: V,
    ) -> Result<V::Value, SimError> {
        self.env.step(RStep::Open, self.depth)?;
        let mut order = self.env.delivery(self.path, entries.len());
        let filter = match declared_fields {
            Some(f) if self.env.cfg.filter_fields && self.env.cfg.keyed() => Some(f),
            _ => None,
        };
        {
            let mut st = self.env.st.borrow_mut();
            for d in &order {
                st.log.u64(match d {
                    Deliver::Orig(i) => *i as u64,
                    Deliver::Unknown(i) => 0x100 | *i as u64,
                });
            }
            // For the oracle: what the plan delivered. In filter mode injected entries are taken
            // out (the medium legitimately withholds them), but a *real* entry withheld because the
            // reader's own `fields` list does not name it stays listed as delivered: if that makes
            // the read fail, it is the code's inconsistency, not a fault.
            let declared = |d: &Deliver| -> bool {
                match (d, filter) {
                    (Deliver::Unknown(fi), Some(f)) => match &self.env.faults[*fi as usize] {
                        // an injected key that the reader itself lists (an alias it declares) does arrive
                        RFault::Unknown { key, .. } => f.contains(&key.as_str()),
                        _ => false,
                    },
                    _ => false,
                }
            };
            let seen: Vec<Deliver> = match filter {
                Some(_) => order.iter().copied().filter(|d| matches!(d, Deliver::Orig(_)) || declared(d)).collect(),
                None => order.clone(),
            };
            st.opened.push((self.path, seen));
        }
        if let Some(f) = filter {
            let faults = self.env.faults;
            order.retain(|d| match d {
                Deliver::Orig(i) => f.contains(&entries[*i as usize].0.as_str()),
                Deliver::Unknown(fi) => match &faults[*fi as usize] {
                    RFault::Unknown { key, .. } => f.contains(&key.as_str()),
                    _ => false,
                },
            });
        }
        match self.env.cfg.framing {
            Framing::Positional => {
                let acc = PosAccess { de: self, entries, order, pos: 0, limit: positional_limit };
                v.visit_seq(acc)
            }
            framing => {
                // Length-prefixed framing: the reader trusts the declared count. If the writer
                // declared more entries than it wrote, the reader runs off the end of the record;
                // if it declared fewer, the tail is never reached.
                let surplus = declared_len as i64 - entries.len() as i64;
                let (limit, overrun) = if framing == Framing::KeyedLenPrefixed {
                    let want = order.len() as i64 + surplus;
                    if want > order.len() as i64 {
                        (order.len(), true)
                    } else {
                        (want.max(0) as usize, false)
                    }
                } else {
                    (order.len(), false)
                };
                let acc = RecAccess { de: self, entries, order, pos: 0, limit, overrun, pending: None, declared_fields };
                v.visit_map(acc)
            }
        }
    }

    fn seq<V: Visitor<'de>>(self, items: &'de [Node], v: V) -> Result<V::Value, SimError> {
        self.env.step(RStep::Open, self.depth)?;
        v.visit_seq(ItemsAccess { de: self, items, pos: 0 })
    }

    fn any<V: Visitor<'de>>(self, positional_limit: Option<usize>, v: V) -> Result<V::Value, SimError> {
        self.any_with(positional_limit, None, v)
    }

    fn any_with<V: Visitor<'de>>(
        self,
        positional_limit: Option<usize>,
        declared_fields: Option<&'static [&'static str]>,
        v: V,
    ) -> Result<V::Value, SimError> {
        match self.node {
            Node::Num { kind, bits } => self.visit_num(*kind, *bits, v),
            Node::Str(s) => self.visit_text(s, v),
            Node::Bytes(b) => {
                self.env.step(RStep::Leaf, self.depth)?;
                v.visit_borrowed_bytes(b)
            }
            Node::Char(c) => {
                self.env.step(RStep::Leaf, self.depth)?;
                v.visit_char(*c)
            }
            Node::Unit => {
                self.env.step(RStep::Leaf, self.depth)?;
                v.visit_unit()
            }
            Node::None => {
                self.env.step(RStep::Leaf, self.depth)?;
                v.visit_none()
            }
            Node::Some(inner) => {
                self.env.step(RStep::Misc, self.depth)?;
                v.visit_some(De { node: inner, ..self })
            }
            Node::Newtype { inner, .. } => {
                self.env.step(RStep::Misc, self.depth)?;
                v.visit_newtype_struct(De { node: inner, ..self })
            }
            Node::Struct { entries, declared_len, .. } => {
                self.record(entries, *declared_len, positional_limit, declared_fields, v)
            }
            Node::Map { entries, .. } => {
                self.env.step(RStep::Open, self.depth)?;
                v.visit_map(PairsAccess { de: self, entries, pos: 0, pending: false })
            }
            Node::Seq { items, .. } => self.seq(items, v),
            Node::Other(_) => Err(SimError::Medium("unsupported stored node")),
        }
    }
}

fn deliver_str<'de, V: Visitor<'de>>(form: KeyForm, s: &'de str, v: V) -> Result<V::Value, SimError> {
    match form {
        KeyForm::Str => {
            // a transient copy: the visitor must not be able to borrow from the medium
            let tmp = s.to_string();
            v.visit_str(&tmp)
        }
        KeyForm::Borrowed => v.visit_borrowed_str(s),
        KeyForm::String => v.visit_string(s.to_string()),
        KeyForm::Bytes => {
            let tmp = s.as_bytes().to_vec();
            v.visit_bytes(&tmp)
        }
        KeyForm::BorrowedBytes => v.visit_borrowed_bytes(s.as_bytes()),
        // only record keys are ever delivered as indices (KeyDe); text values stay text
        KeyForm::Index => v.visit_borrowed_str(s),
    }
}

macro_rules! forward_any {
    ($($m:ident)*) => {
        $(fn $m<V: Visitor<'de>>(self, v: V) -> Result<V::Value, SimError> { self.any(None, v) })*
    };
}

impl<'de> de::Deserializer<'de> for De<'de> {
    type Error = SimError;

    fn deserialize_any<V: Visitor<'de>>(self, v: V) -> Result<V::Value, SimError> {
        self.any(None, v)
    }

    fn deserialize_map<V: Visitor<'de>>(self, v: V) -> Result<V::Value, SimError> {
        if self.env.cfg.check_names {
            if let Node::Struct { name, .. } = self.node {
                if name != "<map>" {
                    self.env.step(RStep::Open, self.depth)?;
                    return Err(SimError::Medium("the reader expects a map, the medium holds a struct"));
                }
            }
        }
        self.any(None, v)
    }

    forward_any! {
        deserialize_i128 deserialize_u128
        deserialize_bool deserialize_i8 deserialize_i16 deserialize_i32 deserialize_i64
        deserialize_u8 deserialize_u16 deserialize_u32 deserialize_u64 deserialize_f32
        deserialize_f64 deserialize_char deserialize_str deserialize_string deserialize_bytes
        deserialize_byte_buf deserialize_unit deserialize_seq
        deserialize_identifier deserialize_ignored_any
    }

    fn deserialize_option<V: Visitor<'de>>(self, v: V) -> Result<V::Value, SimError> {
        if self.env.cfg.check_names && !matches!(self.node, Node::None | Node::Unit | Node::Some(_)) {
            // strict (non-self-describing) medium: an option has a tag on the wire; a plain value
            // that was not written through serialize_some cannot be read as one
            self.env.step(RStep::Misc, self.depth)?;
            return Err(SimError::Medium("the reader expects an option, the medium holds a plain value"));
        }
        match self.node {
            Node::None | Node::Unit => {
                self.env.step(RStep::Leaf, self.depth)?;
                v.visit_none()
            }
            Node::Some(inner) => {
                self.env.step(RStep::Misc, self.depth)?;
                v.visit_some(De { node: inner, ..self })
            }
            _ => v.visit_some(self),
        }
    }

    fn deserialize_unit_struct<V: Visitor<'de>>(self, _n: &'static str, v: V) -> Result<V::Value, SimError> {
        self.any(None, v)
    }

    fn deserialize_newtype_struct<V: Visitor<'de>>(
        self,
        _name: &'static str,
        v: V,
    ) -> Result<V::Value, SimError> {
        self.env.step(RStep::Misc, self.depth)?;
        match self.node {
            Node::Newtype { inner, name } => {
                if self.env.cfg.check_names && name != _name {
                    return Err(SimError::Medium("the newtype on the medium carries another name than the reader expects"));
                }
                v.visit_newtype_struct(De { node: inner, ..self })
            }
            _ => v.visit_newtype_struct(self),
        }
    }

    fn deserialize_tuple<V: Visitor<'de>>(self, len: usize, v: V) -> Result<V::Value, SimError> {
        self.any(Some(len), v)
    }

    fn deserialize_tuple_struct<V: Visitor<'de>>(
        self,
        _name: &'static str,
        len: usize,
        v: V,
    ) -> Result<V::Value, SimError> {
        self.any(Some(len), v)
    }

    fn deserialize_struct<V: Visitor<'de>>(
        self,
        _name: &'static str,
        fields: &'static [&'static str],
        v: V,
    ) -> Result<V::Value, SimError> {
        // a record stored behind a wrapper the reader does not ask for is still that record
        let node = match self.node {
            Node::Newtype { inner, .. } => inner,
            n => n,
        };
        if self.env.cfg.check_names {
            if let Node::Struct { name: stored, .. } = node {
                // RON-like strictness: a struct is not a map, and a struct has a name
                if stored == "<map>" {
                    self.env.step(RStep::Open, self.depth)?;
                    return Err(SimError::Medium("the reader expects a struct, the medium holds a map (written through serialize_map)"));
                }
                if stored != _name {
                    self.env.step(RStep::Open, self.depth)?;
                    return Err(SimError::Medium("the record on the medium carries another struct name than the reader expects"));
                }
            }
        }
        De { node, ..self }.any_with(Some(fields.len()), Some(fields), v)
    }

    fn deserialize_enum<V: Visitor<'de>>(
        self,
        _name: &'static str,
        _variants: &'static [&'static str],
        _v: V,
    ) -> Result<V::Value, SimError> {
        Err(SimError::Medium("enums are not stored on this medium"))
    }

    fn is_human_readable(&self) -> bool {
        self.env.cfg.human_readable
    }
}

/// Keyed delivery of a struct record.
struct RecAccess<'de> {
    de: De<'de>,
    entries: &'de [(String, Node)],
    order: Vec<Deliver>,
    pos: usize,
    limit: usize,
    overrun: bool,
    pending: Option<Deliver>,
    declared_fields: Option<&'static [&'static str]>,
}

impl<'de> de::MapAccess<'de> for RecAccess<'de> {
    type Error = SimError;

    fn next_key_seed<K: DeserializeSeed<'de>>(&mut self, seed: K) -> Result<Option<K::Value>, SimError> {
        let env = self.de.env;
        env.step(RStep::NextKey, self.de.depth)?;
        if self.pos >= self.limit {
            if self.overrun {
                return Err(SimError::Medium("record ended before the declared number of entries"));
            }
            return Ok(None);
        }
        let d = self.order[self.pos];
        self.pos += 1;
        self.pending = Some(d);
        let key: &'de str = match d {
            Deliver::Orig(i) => &self.entries[i as usize].0,
            Deliver::Unknown(fi) => match &env.faults[fi as usize] {
                RFault::Unknown { key, .. } => key,
                _ => return Err(SimError::Medium("bad plan")),
            },
        };
        env.st.borrow_mut().log.str(key);
        let index = match (env.cfg.key_form, self.declared_fields) {
            (KeyForm::Index, Some(f)) => Some(f.iter().position(|x| *x == key).unwrap_or(f.len()) as u64),
            _ => None,
        };
        seed.deserialize(KeyDe { env, key, depth: self.de.depth, index }).map(Some)
    }

    fn next_value_seed<T: DeserializeSeed<'de>>(&mut self, seed: T) -> Result<T::Value, SimError> {
        let env = self.de.env;
        env.step(RStep::NextValue, self.de.depth)?;
        let d = match self.pending.take() {
            Some(d) => d,
            None => return Err(SimError::Medium("next_value without next_key")),
        };
        match d {
            Deliver::Orig(i) => {
                let child = self.de.child(&self.entries[i as usize].1, self.de.path.child(i as usize));
                let r = seed.deserialize(child)?;
                if self.de.path.len == 0 {
                    env.st.borrow_mut().top_done |= 1u32 << (i as u32 & 31);
                }
                Ok(r)
            }
            Deliver::Unknown(fi) => {
                // path marked invalid: faults are never addressed inside injected values
                let mut p = self.de.path;
                p.len = 0xff;
                let child = self.de.child(&env.unknown_vals[fi as usize], p);
                seed.deserialize(child)
            }
        }
    }

    fn size_hint(&self) -> Option<usize> {
        self.de.env.cfg.size_hint.report(self.limit.saturating_sub(self.pos))
    }
}

/// Positional delivery of a struct record (names are not on the medium).
struct PosAccess<'de> {
    de: De<'de>,
    entries: &'de [(String, Node)],
    order: Vec<Deliver>,
    pos: usize,
    /// how many elements the reader said it expects (`fields.len()`)
    limit: Option<usize>,
}

impl<'de> de::SeqAccess<'de> for PosAccess<'de> {
    type Error = SimError;

    fn next_element_seed<T: DeserializeSeed<'de>>(&mut self, seed: T) -> Result<Option<T::Value>, SimError> {
        let env = self.de.env;
        env.step(RStep::NextElement, self.de.depth)?;
        if let Some(l) = self.limit {
            if self.pos >= l {
                return Ok(None);
            }
        }
        if self.pos >= self.order.len() {
            return match self.limit {
                // the reader expects more values than the record holds: it runs off the end
                Some(_) if !self.de.env.cfg.clean_end => Err(SimError::Medium("unexpected end of positional record")),
                Some(_) => Ok(None),
                None => Ok(None),
            };
        }
        let d = self.order[self.pos];
        self.pos += 1;
        match d {
            Deliver::Orig(i) => {
                let child = self.de.child(&self.entries[i as usize].1, self.de.path.child(i as usize));
                let r = seed.deserialize(child)?;
                if self.de.path.len == 0 {
                    env.st.borrow_mut().top_done |= 1u32 << (i as u32 & 31);
                }
                Ok(Some(r))
            }
            Deliver::Unknown(fi) => {
                let mut p = self.de.path;
                p.len = 0xff;
                let child = self.de.child(&env.unknown_vals[fi as usize], p);
                seed.deserialize(child).map(Some)
            }
        }
    }

    fn size_hint(&self) -> Option<usize> {
        self.de.env.cfg.size_hint.report(self.order.len().saturating_sub(self.pos))
    }
}

/// A stored sequence / tuple.
struct ItemsAccess<'de> {
    de: De<'de>,
    items: &'de [Node],
    pos: usize,
}

impl<'de> de::SeqAccess<'de> for ItemsAccess<'de> {
    type Error = SimError;
    fn next_element_seed<T: DeserializeSeed<'de>>(&mut self, seed: T) -> Result<Option<T::Value>, SimError> {
        self.de.env.step(RStep::NextElement, self.de.depth)?;
        if self.pos >= self.items.len() {
            return Ok(None);
        }
        let mut p = self.de.path;
        p.len = 0xff;
        let child = self.de.child(&self.items[self.pos], p);
        self.pos += 1;
        seed.deserialize(child).map(Some)
    }
    fn size_hint(&self) -> Option<usize> {
        self.de.env.cfg.size_hint.report(self.items.len() - self.pos)
    }
}

/// A stored map with non-string keys.
struct PairsAccess<'de> {
    de: De<'de>,
    entries: &'de [(Node, Node)],
    pos: usize,
    pending: bool,
}

impl<'de> de::MapAccess<'de> for PairsAccess<'de> {
    type Error = SimError;
    fn next_key_seed<K: DeserializeSeed<'de>>(&mut self, seed: K) -> Result<Option<K::Value>, SimError> {
        self.de.env.step(RStep::NextKey, self.de.depth)?;
        if self.pos >= self.entries.len() {
            return Ok(None);
        }
        self.pending = true;
        let mut p = self.de.path;
        p.len = 0xff;
        seed.deserialize(self.de.child(&self.entries[self.pos].0, p)).map(Some)
    }
    fn next_value_seed<T: DeserializeSeed<'de>>(&mut self, seed: T) -> Result<T::Value, SimError> {
        self.de.env.step(RStep::NextValue, self.de.depth)?;
        if !self.pending {
            return Err(SimError::Medium("next_value without next_key"));
        }
        self.pending = false;
        let mut p = self.de.path;
        p.len = 0xff;
        let child = self.de.child(&self.entries[self.pos].1, p);
        self.pos += 1;
        seed.deserialize(child)
    }
}

/// Deserializer for a record key.
struct KeyDe<'de> {
    env: &'de ReadEnv<'de>,
    key: &'de str,
    depth: u8,
    /// Some(i): deliver the key as field index i
    index: Option<u64>,
}

macro_rules! key_forward {
    ($($m:ident)*) => {
        $(fn $m<V: Visitor<'de>>(self, v: V) -> Result<V::Value, SimError> { self.deliver(v) })*
    };
}

impl<'de> KeyDe<'de> {
    fn deliver<V: Visitor<'de>>(self, v: V) -> Result<V::Value, SimError> {
        self.env.step(RStep::Key, self.depth)?;
        if let Some(i) = self.index {
            return v.visit_u64(i);
        }
        deliver_str(self.env.cfg.key_form, self.key, v)
    }
}

impl<'de> de::Deserializer<'de> for KeyDe<'de> {
    type Error = SimError;
    key_forward! {
        deserialize_any deserialize_bool deserialize_i8 deserialize_i16 deserialize_i32
        deserialize_i64 deserialize_u8 deserialize_u16 deserialize_u32 deserialize_u64
        deserialize_f32 deserialize_f64 deserialize_char deserialize_str deserialize_string
        deserialize_bytes deserialize_byte_buf deserialize_option deserialize_unit
        deserialize_seq deserialize_map deserialize_identifier deserialize_ignored_any
    }
    fn deserialize_unit_struct<V: Visitor<'de>>(self, _n: &'static str, v: V) -> Result<V::Value, SimError> {
        self.deliver(v)
    }
    fn deserialize_newtype_struct<V: Visitor<'de>>(self, _n: &'static str, v: V) -> Result<V::Value, SimError> {
        v.visit_newtype_struct(self)
    }
    fn deserialize_tuple<V: Visitor<'de>>(self, _l: usize, v: V) -> Result<V::Value, SimError> {
        self.deliver(v)
    }
    fn deserialize_tuple_struct<V: Visitor<'de>>(self, _n: &'static str, _l: usize, v: V) -> Result<V::Value, SimError> {
        self.deliver(v)
    }
    fn deserialize_struct<V: Visitor<'de>>(
        self,
        _n: &'static str,
        _f: &'static [&'static str],
        v: V,
    ) -> Result<V::Value, SimError> {
        self.deliver(v)
    }
    fn deserialize_enum<V: Visitor<'de>>(
        self,
        _n: &'static str,
        _vs: &'static [&'static str],
        v: V,
    ) -> Result<V::Value, SimError> {
        self.deliver(v)
    }
    fn is_human_readable(&self) -> bool {
        self.env.cfg.human_readable
    }
}
