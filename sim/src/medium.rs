//! Configuration of the simulated medium, the error type shared by both sides, and the fault
//! vocabulary. Everything here is plain data so that a plan can be written to a replay file.

use serde::{Deserialize, Serialize};
use std::fmt;

/// How a struct record is framed on the medium.
#[derive(Clone, Copy, PartialEq, Eq, Debug, Hash, Serialize, Deserialize, PartialOrd, Ord)]
pub enum Framing {
    /// JSON-like: keyed entries until an end marker.
    KeyedSelfDelim,
    /// MessagePack-like: keyed entries, exactly as many as `serialize_struct` declared.
    KeyedLenPrefixed,
    /// bincode-like: values only, in the order written, names never consulted.
    Positional,
}

#[derive(Clone, Copy, PartialEq, Eq, Debug, Hash, Serialize, Deserialize, PartialOrd, Ord)]
pub enum KeyForm {
    Str,
    Borrowed,
    String,
    /// keys arrive through visit_bytes (a transient copy). No given property promises that any
    /// cgmath type accepts this form; the oracle only demands "never wrong data" here.
    Bytes,
    /// keys arrive through visit_borrowed_bytes
    BorrowedBytes,
    /// keys arrive as the field's index in the reader's own `fields` list (visit_u64), as compact
    /// formats that number struct fields do; a key that is not in the list arrives as `fields.len()`
    Index,
}

impl KeyForm {
    pub fn is_bytes(self) -> bool {
        matches!(self, KeyForm::Bytes | KeyForm::BorrowedBytes | KeyForm::Index)
    }
}

#[derive(Clone, Copy, PartialEq, Eq, Debug, Hash, Serialize, Deserialize, PartialOrd, Ord)]
pub enum NumDelivery {
    /// each number is delivered with the width it was written with
    Typed,
    /// JSON-like: floats as f64, signed as i64, unsigned as u64
    Widened,
}

#[derive(Clone, Copy, PartialEq, Eq, Debug, Hash, Serialize, Deserialize, PartialOrd, Ord)]
pub enum NewtypeMode {
    /// JSON-like: a newtype struct is stored as its payload
    Transparent,
    /// the wrapper is stored and delivered through `visit_newtype_struct`
    Wrapped,
}

/// What MapAccess/SeqAccess::size_hint reports. The hint is advisory ("if known"): code whose
/// correctness depends on it is wrong, which is why serde itself only ever uses it, capped, to
/// pre-allocate.
#[derive(Clone, Copy, PartialEq, Eq, Debug, Hash, Serialize, Deserialize, PartialOrd, Ord)]
pub enum SizeHint {
    None,
    Exact,
    /// a lower bound (chunked / streaming producer): half of what actually remains
    Lower,
    /// an upper bound (a producer that filters entries out after counting them): three too many
    Upper,
}

impl SizeHint {
    pub fn report(self, remaining: usize) -> Option<usize> {
        match self {
            SizeHint::None => None,
            SizeHint::Exact => Some(remaining),
            SizeHint::Lower => Some(remaining / 2),
            SizeHint::Upper => Some(remaining + 3),
        }
    }
}

#[derive(Clone, Copy, PartialEq, Eq, Debug, Hash, Serialize, Deserialize)]
pub struct Medium {
    pub framing: Framing,
    pub key_form: KeyForm,
    pub nums: NumDelivery,
    pub newtype: NewtypeMode,
    pub human_readable: bool,
    pub size_hint: SizeHint,
    /// like serde's own `flatten` machinery: a keyed record delivers only the entries whose key is
    /// in the `fields` list the reader passed to `deserialize_struct`; everything else never
    /// reaches the visitor (so unknown-field rejection cannot be observed in this mode, but a
    /// `fields` list that disagrees with what the same type writes can)
    #[serde(default)]
    pub filter_fields: bool,
    /// RON-like: the name given to `serialize_struct` / `serialize_newtype_struct` is stored, and a
    /// reader asking for a struct under a different name is refused. (Renaming both sides together
    /// is invisible; writing under one name and reading under another is not.)
    #[serde(default)]
    pub check_names: bool,
    /// bincode / postcard-like (only with `Framing::Positional`): no structure at all on the wire,
    /// a record is its leaves one after the other and the reader gets as many as it asks for
    /// (`flat.rs`). Read faults, which are about records and keys, do not apply.
    #[serde(default)]
    pub untyped: bool,
    /// positional framing only: the end of a record is visible on the wire (a JSON or MessagePack
    /// array): a reader asking for more elements than there are is told "no more" instead of
    /// running off the end
    #[serde(default)]
    pub clean_end: bool,
}

impl Medium {
    pub const DEFAULT: Medium = Medium {
        framing: Framing::KeyedSelfDelim,
        key_form: KeyForm::Str,
        nums: NumDelivery::Typed,
        newtype: NewtypeMode::Transparent,
        human_readable: true,
        size_hint: SizeHint::None,
        filter_fields: false,
        check_names: false,
        untyped: false,
        clean_end: false,
    };
    pub fn flat(&self) -> bool {
        self.framing == Framing::Positional && self.untyped
    }
    pub fn keyed(&self) -> bool {
        self.framing != Framing::Positional
    }
    pub fn code(&self) -> u64 {
        (self.framing as u64)
            | (self.key_form as u64) << 2 // three bits
            | (self.nums as u64) << 5
            | (self.newtype as u64) << 6
            | (self.human_readable as u64) << 7
            | (self.size_hint as u64) << 8 // two bits
            | (self.filter_fields as u64) << 10
            | (self.check_names as u64) << 11
            | (self.untyped as u64) << 12
            | (self.clean_end as u64) << 13
    }
}

#[derive(Clone, Copy, PartialEq, Eq, Debug, Hash, Serialize, Deserialize)]
pub enum WKind {
    /// this step fails and its data is lost; later steps succeed again
    Transient,
    /// this step and every later step fail
    Permanent,
    /// this step panics (a buggy writer / a user type's own impl panicking underneath): the
    /// unwinding passes through cgmath's frames and is caught by the caller, as a server's
    /// per-request catch_unwind or a thread pool does. Nothing is claimed about this operation;
    /// what matters is that later operations on the same thread are unaffected.
    Panic,
}

#[derive(Clone, Copy, PartialEq, Eq, Debug, Hash, Serialize, Deserialize)]
pub struct WFault {
    pub step: u32,
    pub kind: WKind,
}

/// Value carried by an injected unknown entry.
#[derive(Clone, Copy, PartialEq, Eq, Debug, Hash, Serialize, Deserialize)]
pub enum UVal {
    Num,
    Str,
    Rec,
    Seq,
    Unit,
    /// a copy of the value of original entry `i` of the same record (stale field of another
    /// schema version carrying a perfectly valid payload)
    CopyOf(u8),
}

#[derive(Clone, PartialEq, Eq, Debug, Hash, Serialize, Deserialize)]
pub enum RFault {
    /// entries of the record at `path` are delivered in the order `perm` (original indices)
    Reorder { path: Vec<u8>, perm: Vec<u8> },
    /// original entries `idx` of the record at `path` are never delivered; the record ends cleanly
    Drop { path: Vec<u8>, idx: Vec<u8> },
    /// an entry under `key` (not a field of the record) is spliced in at delivery position `pos`
    Unknown { path: Vec<u8>, pos: u8, key: String, val: UVal },
    /// original entry `idx` is delivered a second time (same value) at delivery position `pos`
    Dup { path: Vec<u8>, idx: u8, pos: u8 },
    /// read step `step` fails; with `permanent` every later step fails too (hard truncation)
    Err { step: u32, permanent: bool },
    /// read step `step` panics (see WKind::Panic)
    Panic { step: u32 },
}

impl RFault {
    pub fn kind_name(&self) -> &'static str {
        match self {
            RFault::Reorder { .. } => "R_REORDER",
            RFault::Drop { .. } => "R_DROP",
            RFault::Unknown { .. } => "R_UNKNOWN",
            RFault::Dup { .. } => "R_DUP",
            RFault::Err { permanent: false, .. } => "R_ERR",
            RFault::Err { permanent: true, .. } => "R_TRUNC",
            RFault::Panic { .. } => "R_PANIC",
        }
    }
    pub fn path(&self) -> Option<&[u8]> {
        match self {
            RFault::Reorder { path, .. }
            | RFault::Drop { path, .. }
            | RFault::Unknown { path, .. }
            | RFault::Dup { path, .. } => Some(path),
            RFault::Err { .. } | RFault::Panic { .. } => None,
        }
    }
}

/// Error type of the simulated medium (both directions).
#[derive(Clone, Debug, PartialEq)]
pub enum SimError {
    /// injected by the fault plan at this step
    Injected(u32),
    /// the medium itself cannot go on (end of data, protocol misuse)
    Medium(&'static str),
    /// produced by the code under test through `serde::{ser,de}::Error::custom` & friends
    Custom(String),
}

impl fmt::Display for SimError {
    fn fmt(&self, f: &mut fmt::Formatter) -> fmt::Result {
        match self {
            // the text varies with the step so that code which inspects messages (it should not) sees
            // the phrasings real formats use
            SimError::Injected(k) => write!(
                f,
                "{} (injected fault at step {})",
                ["I/O error", "EOF while parsing an object", "unexpected end of file", "broken pipe", "connection reset", "timed out", "invalid data", "expected value"][*k as usize % 8],
                k
            ),
            SimError::Medium(m) => write!(f, "medium: {}", m),
            SimError::Custom(s) => write!(f, "{}", s),
        }
    }
}

impl std::error::Error for SimError {}

impl serde::ser::Error for SimError {
    fn custom<T: fmt::Display>(msg: T) -> Self {
        SimError::Custom(msg.to_string())
    }
}

impl serde::de::Error for SimError {
    fn custom<T: fmt::Display>(msg: T) -> Self {
        SimError::Custom(msg.to_string())
    }
}

/// Fixed-capacity path of original entry indices from the root record.
#[derive(Clone, Copy, PartialEq, Eq, Debug, Hash, Default)]
pub struct SmallPath {
    pub len: u8,
    pub idx: [u8; 7],
}

impl SmallPath {
    pub fn root() -> SmallPath {
        SmallPath::default()
    }
    pub fn child(&self, i: usize) -> SmallPath {
        let mut p = *self;
        if (p.len as usize) < p.idx.len() {
            p.idx[p.len as usize] = i as u8;
            p.len += 1;
        } else {
            // deeper than anything cgmath has; mark as unaddressable
            p.len = 0xff;
        }
        p
    }
    pub fn as_slice(&self) -> &[u8] {
        if self.len == 0xff {
            &[]
        } else {
            &self.idx[..self.len as usize]
        }
    }
    pub fn valid(&self) -> bool {
        self.len != 0xff
    }
    pub fn from_slice(s: &[u8]) -> SmallPath {
        let mut p = SmallPath::default();
        for &i in s {
            p = p.child(i as usize);
        }
        p
    }
    pub fn starts_with(&self, prefix: &[u8]) -> bool {
        self.as_slice().starts_with(prefix)
    }
}
