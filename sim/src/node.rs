//! What the simulated medium stores: a tree of the serde data-model calls that reached it.
//!
//! Leaves carry raw bits, so comparing a float before and after a trip through the medium never
//! involves text or arithmetic.

use crate::rng::Fnv;
use serde::{Deserialize, Serialize};

#[derive(Clone, Copy, PartialEq, Eq, Debug, Hash, Serialize, Deserialize, PartialOrd, Ord)]
pub enum Kind {
    F32,
    F64,
    I8,
    I16,
    I32,
    I64,
    U8,
    U16,
    U32,
    U64,
    Bool,
    /// 128-bit integers; the simulator only generates values that fit 64 bits (sign-extended)
    I128,
    U128,
}

impl Kind {
    pub fn is_float(self) -> bool {
        matches!(self, Kind::F32 | Kind::F64)
    }
    pub fn name(self) -> &'static str {
        match self {
            Kind::F32 => "f32",
            Kind::F64 => "f64",
            Kind::I8 => "i8",
            Kind::I16 => "i16",
            Kind::I32 => "i32",
            Kind::I64 => "i64",
            Kind::U8 => "u8",
            Kind::U16 => "u16",
            Kind::U32 => "u32",
            Kind::U64 => "u64",
            Kind::Bool => "bool",
            Kind::I128 => "i128",
            Kind::U128 => "u128",
        }
    }
    pub fn code(self) -> u64 {
        self as u64
    }
}

#[derive(Clone, Copy, PartialEq, Eq, Debug)]
pub enum SeqTag {
    Seq,
    Tuple,
    TupleStruct,
}

#[derive(Clone, PartialEq, Debug)]
pub enum Node {
    Num { kind: Kind, bits: u64 },
    Str(String),
    Bytes(Vec<u8>),
    Char(char),
    Unit,
    None,
    Some(Box<Node>),
    Newtype { name: String, inner: Box<Node> },
    Struct { name: String, declared_len: usize, entries: Vec<(String, Node)> },
    Map { declared_len: Option<usize>, entries: Vec<(Node, Node)> },
    Seq { tag: SeqTag, name: String, declared_len: Option<usize>, items: Vec<Node> },
    /// enum variants and anything else cgmath has no business writing
    Other(String),
}

impl Node {
    pub fn num(kind: Kind, bits: u64) -> Node {
        Node::Num { kind, bits }
    }

    /// Leaves in depth-first order.
    pub fn leaves(&self, out: &mut Vec<(Kind, u64)>) {
        match self {
            Node::Num { kind, bits } => out.push((*kind, *bits)),
            Node::Some(n) | Node::Newtype { inner: n, .. } => n.leaves(out),
            Node::Struct { entries, .. } => entries.iter().for_each(|(_, n)| n.leaves(out)),
            Node::Map { entries, .. } => entries.iter().for_each(|(k, v)| {
                k.leaves(out);
                v.leaves(out)
            }),
            Node::Seq { items, .. } => items.iter().for_each(|n| n.leaves(out)),
            _ => {}
        }
    }

    /// Replace the numeric leaves, depth-first, with `bits` (kinds are kept). Returns how many
    /// were replaced.
    pub fn patch_leaves(&mut self, bits: &[u64], at: &mut usize) {
        match self {
            Node::Num { bits: b, .. } => {
                if let Some(x) = bits.get(*at) {
                    *b = *x;
                }
                *at += 1;
            }
            Node::Some(n) | Node::Newtype { inner: n, .. } => n.patch_leaves(bits, at),
            Node::Struct { entries, .. } => {
                entries.iter_mut().for_each(|(_, n)| n.patch_leaves(bits, at))
            }
            Node::Map { entries, .. } => entries.iter_mut().for_each(|(k, v)| {
                k.patch_leaves(bits, at);
                v.patch_leaves(bits, at)
            }),
            Node::Seq { items, .. } => items.iter_mut().for_each(|n| n.patch_leaves(bits, at)),
            _ => {}
        }
    }

    pub fn hash_into(&self, h: &mut Fnv) {
        match self {
            Node::Num { kind, bits } => {
                h.u64(1);
                h.u64(kind.code());
                h.u64(*bits);
            }
            Node::Str(s) => {
                h.u64(2);
                h.str(s)
            }
            Node::Bytes(b) => {
                h.u64(3);
                h.bytes(b)
            }
            Node::Char(c) => {
                h.u64(4);
                h.u64(*c as u64)
            }
            Node::Unit => h.u64(5),
            Node::None => h.u64(6),
            Node::Some(n) => {
                h.u64(7);
                n.hash_into(h)
            }
            Node::Newtype { name, inner } => {
                h.u64(8);
                h.str(name);
                inner.hash_into(h)
            }
            Node::Struct { name, declared_len, entries } => {
                h.u64(9);
                h.str(name);
                h.u64(*declared_len as u64);
                h.u64(entries.len() as u64);
                for (k, v) in entries {
                    h.str(k);
                    v.hash_into(h);
                }
            }
            Node::Map { declared_len, entries } => {
                h.u64(10);
                h.u64(declared_len.map(|x| x as u64 + 1).unwrap_or(0));
                h.u64(entries.len() as u64);
                for (k, v) in entries {
                    k.hash_into(h);
                    v.hash_into(h);
                }
            }
            Node::Seq { tag, name, declared_len, items } => {
                h.u64(11);
                h.u64(*tag as u64);
                h.str(name);
                h.u64(declared_len.map(|x| x as u64 + 1).unwrap_or(0));
                h.u64(items.len() as u64);
                for v in items {
                    v.hash_into(h);
                }
            }
            Node::Other(s) => {
                h.u64(12);
                h.str(s)
            }
        }
    }

    /// Human-readable rendering for replay files and evidence samples (never parsed back).
    pub fn render(&self) -> String {
        let mut s = String::new();
        self.render_into(&mut s);
        s
    }

    fn render_into(&self, s: &mut String) {
        use std::fmt::Write;
        match self {
            Node::Num { kind, bits } => {
                let _ = match kind {
                    Kind::F32 => write!(s, "{:?}f32#{:08x}", f32::from_bits(*bits as u32), *bits as u32),
                    Kind::F64 => write!(s, "{:?}f64#{:016x}", f64::from_bits(*bits), bits),
                    Kind::Bool => write!(s, "{}", *bits != 0),
                    Kind::I8 | Kind::I16 | Kind::I32 | Kind::I64 | Kind::I128 => {
                        write!(s, "{}{}", *bits as i64, kind.name())
                    }
                    _ => write!(s, "{}{}", bits, kind.name()),
                };
            }
            Node::Str(x) => {
                let _ = write!(s, "{:?}", x);
            }
            Node::Bytes(b) => {
                let _ = write!(s, "bytes{:?}", b);
            }
            Node::Char(c) => {
                let _ = write!(s, "{:?}", c);
            }
            Node::Unit => s.push_str("()"),
            Node::None => s.push_str("None"),
            Node::Some(n) => {
                s.push_str("Some(");
                n.render_into(s);
                s.push(')');
            }
            Node::Newtype { name, inner } => {
                let _ = write!(s, "{}(", name);
                inner.render_into(s);
                s.push(')');
            }
            Node::Struct { name, declared_len, entries } => {
                let _ = write!(s, "{}/{}{{", name, declared_len);
                for (i, (k, v)) in entries.iter().enumerate() {
                    if i > 0 {
                        s.push_str(", ");
                    }
                    let _ = write!(s, "{}: ", k);
                    v.render_into(s);
                }
                s.push('}');
            }
            Node::Map { entries, .. } => {
                s.push_str("map{");
                for (i, (k, v)) in entries.iter().enumerate() {
                    if i > 0 {
                        s.push_str(", ");
                    }
                    k.render_into(s);
                    s.push_str(": ");
                    v.render_into(s);
                }
                s.push('}');
            }
            Node::Seq { tag, name, items, .. } => {
                let _ = write!(s, "{:?}{}[", tag, name);
                for (i, v) in items.iter().enumerate() {
                    if i > 0 {
                        s.push_str(", ");
                    }
                    v.render_into(s);
                }
                s.push(']');
            }
            Node::Other(x) => {
                let _ = write!(s, "<{}>", x);
            }
        }
    }

    /// Entry of a struct node by key.
    pub fn entry(&self, key: &str) -> Option<&Node> {
        match self {
            Node::Struct { entries, .. } => entries.iter().find(|(k, _)| k == key).map(|(_, v)| v),
            _ => None,
        }
    }
}
