//! What the simulated medium stores: a tree of the serde data-model calls that reached it.
//!
//! Leaves carry raw bits, so comparing a float before and after a trip through the medium never
//! involves text or arithmetic.

use crate::rng::Fnv;
use serde::{Deserialize, Serialize};

#[derive(Clone, Copy, PartialEq, Eq, Debug, Hash, Serialize, Deserialize, PartialOrd, Ord)]
pub enum Kind {
    F32,
    F64,
    I8,
    I16,
    I32,
    I64,
    U8,
    U16,
    U32,
    U64,
    Bool,
    /// 128-bit integers: the 64 stored bits are a *code* for the 128-bit pattern, see [`wide`]
    I128,
    U128,
}

impl Kind {
    pub fn is_float(self) -> bool {
        matches!(self, Kind::F32 | Kind::F64)
    }
    pub fn name(self) -> &'static str {
        match self {
            Kind::F32 => "f32",
            Kind::F64 => "f64",
            Kind::I8 => "i8",
            Kind::I16 => "i16",
            Kind::I32 => "i32",
            Kind::I64 => "i64",
            Kind::U8 => "u8",
            Kind::U16 => "u16",
            Kind::U32 => "u32",
            Kind::U64 => "u64",
            Kind::Bool => "bool",
            Kind::I128 => "i128",
            Kind::U128 => "u128",
        }
    }
    pub fn code(self) -> u64 {
        self as u64
    }
}

/// 128-bit leaves in 64 bits.
///
/// Every leaf of the model is a `u64`. For the two 128-bit kinds that word is a code for the
/// 128-bit two's-complement pattern (a `u128` is handled as the `i128` with the same bits):
///
/// * top two bits equal (`00`/`11`): the word itself, sign-extended (|v| < 2^62);
/// * `01`: `SPECIALS[idx] + off` with `off` in -128..128: the neighbourhoods of 2^53, 2^63, 2^64,
///   2^96, 2^127 and their negatives, where truncation and float detours change a value;
/// * `10`: `x * K mod 2^128` for the low 62 bits `x` and an odd `K`: a bijection, so these codes
///   are spread uniformly over the whole 128-bit space and each decodes to a distinct value.
///
/// `encode` is the inverse wherever one exists. A pattern with no code (what a defective
/// implementation may produce) gets a hash in the `01` class with bit 61 set, which no generated
/// leaf carries, so it compares unequal to every expected leaf.
pub mod wide {
    const K: u128 = 0x9E37_79B9_7F4A_7C15_F39C_C060_5CED_C835;
    const fn inv(k: u128) -> u128 {
        // Newton iteration for the inverse of an odd number modulo 2^128
        let mut x: u128 = k;
        let mut i = 0;
        while i < 7 {
            x = x.wrapping_mul(2u128.wrapping_sub(k.wrapping_mul(x)));
            i += 1;
        }
        x
    }
    const KINV: u128 = inv(K);
    pub const SPECIALS: [i128; 12] = [
        1 << 63,
        -(1 << 63),
        1 << 64,
        -(1 << 64),
        i128::MAX - 127,
        i128::MIN + 128,
        1 << 53,
        -(1 << 53),
        1 << 96,
        -(1 << 96),
        1 << 62,
        -(1 << 62),
    ];
    const UNREP: u64 = 1 << 61;

    pub fn fits62(v: i128) -> bool {
        v >= -(1i128 << 62) && v < (1i128 << 62)
    }

    pub fn encode(v: i128) -> u64 {
        if fits62(v) {
            return v as i64 as u64;
        }
        for (i, s) in SPECIALS.iter().enumerate() {
            if let Some(d) = v.checked_sub(*s) {
                if (-128..128).contains(&d) {
                    return (1u64 << 62) | ((i as u64) << 8) | (d as i8 as u8 as u64);
                }
            }
        }
        let x = (v as u128).wrapping_mul(KINV);
        if x < (1u128 << 62) {
            return (2u64 << 62) | x as u64;
        }
        let h = crate::rng::mix64((v as u128 >> 64) as u64 ^ crate::rng::mix64(v as u64));
        (1u64 << 62) | UNREP | (h & (UNREP - 1))
    }

    /// `None` for the hash of a pattern that has no code.
    pub fn try_decode(code: u64) -> Option<i128> {
        match code >> 62 {
            0 | 3 => Some(code as i64 as i128),
            1 => {
                if code & UNREP != 0 {
                    return None;
                }
                let idx = ((code >> 8) & 0xffff_ffff) as usize;
                let s = *SPECIALS.get(idx)?;
                s.checked_add(code as u8 as i8 as i128)
            }
            _ => Some(((code & ((1u64 << 62) - 1)) as u128).wrapping_mul(K) as i128),
        }
    }

    pub fn decode(code: u64) -> i128 {
        try_decode(code).unwrap_or(0)
    }

    pub fn show_i(code: u64) -> String {
        match try_decode(code) {
            Some(v) => v.to_string(),
            None => format!("<128-bit value without a code #{:x}>", code),
        }
    }
    pub fn show_u(code: u64) -> String {
        match try_decode(code) {
            Some(v) => (v as u128).to_string(),
            None => format!("<128-bit value without a code #{:x}>", code),
        }
    }

    #[cfg(test)]
    mod tests {
        use super::*;
        #[test]
        fn round_trip() {
            assert_eq!(K.wrapping_mul(KINV), 1);
            let mut vals: Vec<i128> = vec![0, 1, -1, i128::MAX, i128::MIN, i64::MAX as i128, i64::MIN as i128, u64::MAX as i128, (u64::MAX as i128) + 1];
            for s in SPECIALS {
                for d in [-128i128, -1, 0, 1, 127] {
                    if let Some(v) = s.checked_add(d) {
                        vals.push(v);
                    }
                }
            }
            for x in [0u64, 1, 12345, (1 << 62) - 1, 0x1234_5678_9abc_def0 & ((1 << 62) - 1)] {
                vals.push((x as u128).wrapping_mul(K) as i128);
            }
            for v in vals {
                let c = encode(v);
                assert_eq!(try_decode(c), Some(v), "{}", v);
                assert_eq!(encode(decode(c)), c);
            }
            // a pattern without a code
            let c = encode(0x1234_5678_9abc_def0_1234_5678_9abc_def0u128 as i128);
            assert_eq!(try_decode(c), None);
        }
    }
}

/// (negative?, two's-complement pattern) of an integer leaf: one pair per mathematical integer.
pub fn int_value(k: Kind, x: u64) -> Option<(bool, u128)> {
    match k {
        Kind::I8 | Kind::I16 | Kind::I32 | Kind::I64 => Some(((x as i64) < 0, x as i64 as i128 as u128)),
        Kind::I128 => wide::try_decode(x).map(|v| (v < 0, v as u128)),
        Kind::U128 => wide::try_decode(x).map(|v| (false, v as u128)),
        Kind::U8 | Kind::U16 | Kind::U32 | Kind::U64 => Some((false, x as u128)),
        _ => None,
    }
}

/// The leaf of kind `to` that denotes exactly the same number as `bits` of kind `from`, if there is
/// one. Used when a record's leaves are overwritten and the writer stored a component under
/// another number type than the model's (an `f32` as `f64`, a small `i128` as `i64`).
pub fn convert_num(from: Kind, bits: u64, to: Kind) -> Option<u64> {
    if from == to {
        return Some(bits);
    }
    match (from, to) {
        (Kind::F32, Kind::F64) => Some((f32::from_bits(bits as u32) as f64).to_bits()),
        (Kind::F64, Kind::F32) => {
            let x = f64::from_bits(bits);
            let y = x as f32;
            if (y as f64).to_bits() == bits {
                Some(y.to_bits() as u64)
            } else {
                None
            }
        }
        _ => {
            let (neg, pat) = int_value(from, bits)?;
            int_value(to, 0)?;
            let (lo, hi): (i128, u128) = match to {
                Kind::I8 => (i8::MIN as i128, i8::MAX as u128),
                Kind::I16 => (i16::MIN as i128, i16::MAX as u128),
                Kind::I32 => (i32::MIN as i128, i32::MAX as u128),
                Kind::I64 => (i64::MIN as i128, i64::MAX as u128),
                Kind::I128 => (i128::MIN, i128::MAX as u128),
                Kind::U8 => (0, u8::MAX as u128),
                Kind::U16 => (0, u16::MAX as u128),
                Kind::U32 => (0, u32::MAX as u128),
                Kind::U64 => (0, u64::MAX as u128),
                _ => (0, u128::MAX),
            };
            let fits = if neg { (pat as i128) >= lo } else { pat <= hi };
            if !fits {
                return None;
            }
            Some(match to {
                Kind::I128 | Kind::U128 => wide::encode(pat as i128),
                Kind::I8 | Kind::I16 | Kind::I32 | Kind::I64 => pat as i128 as i64 as u64,
                _ => pat as u64,
            })
        }
    }
}

#[derive(Clone, Copy, PartialEq, Eq, Debug)]
pub enum SeqTag {
    Seq,
    Tuple,
    TupleStruct,
}

#[derive(Clone, PartialEq, Debug)]
pub enum Node {
    Num { kind: Kind, bits: u64 },
    Str(String),
    Bytes(Vec<u8>),
    Char(char),
    Unit,
    None,
    Some(Box<Node>),
    Newtype { name: String, inner: Box<Node> },
    Struct { name: String, declared_len: usize, entries: Vec<(String, Node)> },
    Map { declared_len: Option<usize>, entries: Vec<(Node, Node)> },
    Seq { tag: SeqTag, name: String, declared_len: Option<usize>, items: Vec<Node> },
    /// enum variants and anything else cgmath has no business writing
    Other(String),
}

impl Node {
    pub fn num(kind: Kind, bits: u64) -> Node {
        Node::Num { kind, bits }
    }

    /// Leaves in depth-first order.
    pub fn leaves(&self, out: &mut Vec<(Kind, u64)>) {
        match self {
            Node::Num { kind, bits } => out.push((*kind, *bits)),
            Node::Some(n) | Node::Newtype { inner: n, .. } => n.leaves(out),
            Node::Struct { entries, .. } => entries.iter().for_each(|(_, n)| n.leaves(out)),
            Node::Map { entries, .. } => entries.iter().for_each(|(k, v)| {
                k.leaves(out);
                v.leaves(out)
            }),
            Node::Seq { items, .. } => items.iter().for_each(|n| n.leaves(out)),
            _ => {}
        }
    }

    /// Replace the numeric leaves, depth-first, with `bits` (kinds are kept). Returns how many
    /// were replaced.
    pub fn patch_leaves(&mut self, bits: &[u64], at: &mut usize) {
        match self {
            Node::Num { bits: b, .. } => {
                if let Some(x) = bits.get(*at) {
                    *b = *x;
                }
                *at += 1;
            }
            Node::Some(n) | Node::Newtype { inner: n, .. } => n.patch_leaves(bits, at),
            Node::Struct { entries, .. } => {
                entries.iter_mut().for_each(|(_, n)| n.patch_leaves(bits, at))
            }
            Node::Map { entries, .. } => entries.iter_mut().for_each(|(k, v)| {
                k.patch_leaves(bits, at);
                v.patch_leaves(bits, at)
            }),
            Node::Seq { items, .. } => items.iter_mut().for_each(|n| n.patch_leaves(bits, at)),
            _ => {}
        }
    }

    pub fn hash_into(&self, h: &mut Fnv) {
        match self {
            Node::Num { kind, bits } => {
                h.u64(1);
                h.u64(kind.code());
                h.u64(*bits);
            }
            Node::Str(s) => {
                h.u64(2);
                h.str(s)
            }
            Node::Bytes(b) => {
                h.u64(3);
                h.bytes(b)
            }
            Node::Char(c) => {
                h.u64(4);
                h.u64(*c as u64)
            }
            Node::Unit => h.u64(5),
            Node::None => h.u64(6),
            Node::Some(n) => {
                h.u64(7);
                n.hash_into(h)
            }
            Node::Newtype { name, inner } => {
                h.u64(8);
                h.str(name);
                inner.hash_into(h)
            }
            Node::Struct { name, declared_len, entries } => {
                h.u64(9);
                h.str(name);
                h.u64(*declared_len as u64);
                h.u64(entries.len() as u64);
                for (k, v) in entries {
                    h.str(k);
                    v.hash_into(h);
                }
            }
            Node::Map { declared_len, entries } => {
                h.u64(10);
                h.u64(declared_len.map(|x| x as u64 + 1).unwrap_or(0));
                h.u64(entries.len() as u64);
                for (k, v) in entries {
                    k.hash_into(h);
                    v.hash_into(h);
                }
            }
            Node::Seq { tag, name, declared_len, items } => {
                h.u64(11);
                h.u64(*tag as u64);
                h.str(name);
                h.u64(declared_len.map(|x| x as u64 + 1).unwrap_or(0));
                h.u64(items.len() as u64);
                for v in items {
                    v.hash_into(h);
                }
            }
            Node::Other(s) => {
                h.u64(12);
                h.str(s)
            }
        }
    }

    /// Human-readable rendering for replay files and evidence samples (never parsed back).
    pub fn render(&self) -> String {
        let mut s = String::new();
        self.render_into(&mut s);
        s
    }

    fn render_into(&self, s: &mut String) {
        use std::fmt::Write;
        match self {
            Node::Num { kind, bits } => {
                let _ = match kind {
                    Kind::F32 => write!(s, "{:?}f32#{:08x}", f32::from_bits(*bits as u32), *bits as u32),
                    Kind::F64 => write!(s, "{:?}f64#{:016x}", f64::from_bits(*bits), bits),
                    Kind::Bool => write!(s, "{}", *bits != 0),
                    Kind::I8 | Kind::I16 | Kind::I32 | Kind::I64 => {
                        write!(s, "{}{}", *bits as i64, kind.name())
                    }
                    Kind::I128 => write!(s, "{}i128", wide::show_i(*bits)),
                    Kind::U128 => write!(s, "{}u128", wide::show_u(*bits)),
                    _ => write!(s, "{}{}", bits, kind.name()),
                };
            }
            Node::Str(x) => {
                let _ = write!(s, "{:?}", x);
            }
            Node::Bytes(b) => {
                let _ = write!(s, "bytes{:?}", b);
            }
            Node::Char(c) => {
                let _ = write!(s, "{:?}", c);
            }
            Node::Unit => s.push_str("()"),
            Node::None => s.push_str("None"),
            Node::Some(n) => {
                s.push_str("Some(");
                n.render_into(s);
                s.push(')');
            }
            Node::Newtype { name, inner } => {
                let _ = write!(s, "{}(", name);
                inner.render_into(s);
                s.push(')');
            }
            Node::Struct { name, declared_len, entries } => {
                let _ = write!(s, "{}/{}{{", name, declared_len);
                for (i, (k, v)) in entries.iter().enumerate() {
                    if i > 0 {
                        s.push_str(", ");
                    }
                    let _ = write!(s, "{}: ", k);
                    v.render_into(s);
                }
                s.push('}');
            }
            Node::Map { entries, .. } => {
                s.push_str("map{");
                for (i, (k, v)) in entries.iter().enumerate() {
                    if i > 0 {
                        s.push_str(", ");
                    }
                    k.render_into(s);
                    s.push_str(": ");
                    v.render_into(s);
                }
                s.push('}');
            }
            Node::Seq { tag, name, items, .. } => {
                let _ = write!(s, "{:?}{}[", tag, name);
                for (i, v) in items.iter().enumerate() {
                    if i > 0 {
                        s.push_str(", ");
                    }
                    v.render_into(s);
                }
                s.push(']');
            }
            Node::Other(x) => {
                let _ = write!(s, "<{}>", x);
            }
        }
    }

    /// Entry of a struct node by key.
    pub fn entry(&self, key: &str) -> Option<&Node> {
        match self {
            Node::Struct { entries, .. } => entries.iter().find(|(k, _)| k == key).map(|(_, v)| v),
            _ => None,
        }
    }
}
