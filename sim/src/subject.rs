//! The values that travel through the simulated medium, and the reference model for them.
//!
//! For every cgmath type under test this file says, *without using cgmath's serde code*:
//!   - its `Shape`: the tree of public field names the property talks about,
//!   - how to build a value from raw leaf bits through public constructors / public fields,
//!   - how to read the leaf bits back through public fields / `AsRef`.
//! The oracle compares what the medium saw and what came back against this.

use crate::node::Kind;
use cgmath::*;
use serde::de::DeserializeOwned;
use serde::Serialize;

/// Restriction on generator leaves.
#[derive(Clone, Copy, PartialEq, Eq, Debug)]
pub enum GenClass {
    /// any finite value of the kind
    Any,
    /// floats of moderate magnitude (inputs of a constructor that does arithmetic)
    Moderate,
}

#[derive(Clone, Debug, PartialEq)]
pub enum Shape {
    Num(Kind),
    /// struct with public fields: keys are asserted
    Rec(Vec<(&'static str, Shape)>),
    /// newtype that must appear as its bare payload (angles)
    Bare(Box<Shape>),
    /// wrapper around one private field (Basis2/Basis3): only the payload is asserted
    Wrap(Box<Shape>),
}

impl Shape {
    pub fn n_leaves(&self) -> usize {
        match self {
            Shape::Num(_) => 1,
            Shape::Rec(f) => f.iter().map(|(_, s)| s.n_leaves()).sum(),
            Shape::Bare(s) | Shape::Wrap(s) => s.n_leaves(),
        }
    }
    pub fn leaf_kinds(&self, out: &mut Vec<Kind>) {
        match self {
            Shape::Num(k) => out.push(*k),
            Shape::Rec(f) => f.iter().for_each(|(_, s)| s.leaf_kinds(out)),
            Shape::Bare(s) | Shape::Wrap(s) => s.leaf_kinds(out),
        }
    }
    pub fn render(&self, leaves: &[u64], at: &mut usize, out: &mut String) {
        use std::fmt::Write;
        match self {
            Shape::Num(k) => {
                let b = leaves.get(*at).copied().unwrap_or(0);
                *at += 1;
                let _ = match k {
                    Kind::F32 => write!(out, "{:?}", f32::from_bits(b as u32)),
                    Kind::F64 => write!(out, "{:?}", f64::from_bits(b)),
                    Kind::I8 | Kind::I16 | Kind::I32 | Kind::I64 => write!(out, "{}", b as i64),
                    _ => write!(out, "{}", b),
                };
            }
            Shape::Rec(f) => {
                out.push('{');
                for (i, (k, s)) in f.iter().enumerate() {
                    if i > 0 {
                        out.push_str(", ");
                    }
                    let _ = write!(out, "{}: ", k);
                    s.render(leaves, at, out);
                }
                out.push('}');
            }
            Shape::Bare(s) => s.render(leaves, at, out),
            Shape::Wrap(s) => {
                out.push_str("wrap(");
                s.render(leaves, at, out);
                out.push(')');
            }
        }
    }
}

pub struct Cur<'a> {
    pub g: &'a [u64],
    pub i: usize,
}

impl<'a> Cur<'a> {
    pub fn new(g: &'a [u64]) -> Self {
        Cur { g, i: 0 }
    }
    #[inline]
    pub fn next(&mut self) -> u64 {
        let v = self.g.get(self.i).copied().unwrap_or(0);
        self.i += 1;
        v
    }
}

pub trait Subject: Serialize + DeserializeOwned + 'static {
    fn type_name() -> String;
    fn shape() -> Shape;
    fn gen_kinds(out: &mut Vec<(Kind, GenClass)>);
    fn build(c: &mut Cur) -> Self;
    fn read(&self, out: &mut Vec<u64>);
    /// `read(build(g)) == g` for every g (false where a constructor does arithmetic)
    fn faithful() -> bool {
        true
    }
}

pub trait Scal: Copy + Serialize + DeserializeOwned + 'static {
    const KIND: Kind;
    fn from_bits64(b: u64) -> Self;
    fn to_bits64(self) -> u64;
}

macro_rules! scal {
    ($t:ty, $k:expr, $from:expr, $to:expr) => {
        impl Scal for $t {
            const KIND: Kind = $k;
            #[inline]
            fn from_bits64(b: u64) -> Self {
                #[allow(clippy::redundant_closure_call)]
                ($from)(b)
            }
            #[inline]
            fn to_bits64(self) -> u64 {
                #[allow(clippy::redundant_closure_call)]
                ($to)(self)
            }
        }
        impl Subject for $t {
            fn type_name() -> String {
                $k.name().to_string()
            }
            fn shape() -> Shape {
                Shape::Num($k)
            }
            fn gen_kinds(out: &mut Vec<(Kind, GenClass)>) {
                out.push(($k, GenClass::Any));
            }
            fn build(c: &mut Cur) -> Self {
                <$t as Scal>::from_bits64(c.next())
            }
            fn read(&self, out: &mut Vec<u64>) {
                out.push(self.to_bits64());
            }
        }
    };
}

scal!(f32, Kind::F32, |b: u64| f32::from_bits(b as u32), |v: f32| v.to_bits() as u64);
scal!(f64, Kind::F64, |b: u64| f64::from_bits(b), |v: f64| v.to_bits());
scal!(i8, Kind::I8, |b: u64| b as i8, |v: i8| v as i64 as u64);
scal!(i16, Kind::I16, |b: u64| b as i16, |v: i16| v as i64 as u64);
scal!(i32, Kind::I32, |b: u64| b as i32, |v: i32| v as i64 as u64);
scal!(i64, Kind::I64, |b: u64| b as i64, |v: i64| v as u64);
scal!(u8, Kind::U8, |b: u64| b as u8, |v: u8| v as u64);
scal!(u16, Kind::U16, |b: u64| b as u16, |v: u16| v as u64);
scal!(u32, Kind::U32, |b: u64| b as u32, |v: u32| v as u64);
scal!(u64, Kind::U64, |b: u64| b, |v: u64| v);

/// Struct with public fields, each itself a Subject.
macro_rules! rec {
    ($name:literal, $T:ident < $P:ident > { $($f:ident : $FT:ty),+ }) => {
        impl<$P: Subject + Copy> Subject for $T<$P> {
            fn type_name() -> String { format!("{}<{}>", $name, <$P as Subject>::type_name()) }
            fn shape() -> Shape { Shape::Rec(vec![$((stringify!($f), <$FT as Subject>::shape())),+]) }
            fn gen_kinds(out: &mut Vec<(Kind, GenClass)>) { $(<$FT as Subject>::gen_kinds(out);)+ }
            fn build(c: &mut Cur) -> Self { $(let $f = <$FT as Subject>::build(c);)+ $T { $($f),+ } }
            fn read(&self, out: &mut Vec<u64>) { $(self.$f.read(out);)+ }
            fn faithful() -> bool { true $(&& <$FT as Subject>::faithful())+ }
        }
    };
}

rec!("Vector1", Vector1<S> { x: S });
rec!("Vector2", Vector2<S> { x: S, y: S });
rec!("Vector3", Vector3<S> { x: S, y: S, z: S });
rec!("Vector4", Vector4<S> { x: S, y: S, z: S, w: S });
rec!("Point1", Point1<S> { x: S });
rec!("Point2", Point2<S> { x: S, y: S });
rec!("Point3", Point3<S> { x: S, y: S, z: S });
rec!("Matrix2", Matrix2<S> { x: Vector2<S>, y: Vector2<S> });
rec!("Matrix3", Matrix3<S> { x: Vector3<S>, y: Vector3<S>, z: Vector3<S> });
rec!("Matrix4", Matrix4<S> { x: Vector4<S>, y: Vector4<S>, z: Vector4<S>, w: Vector4<S> });
rec!("Quaternion", Quaternion<S> { v: Vector3<S>, s: S });
rec!("Euler", Euler<S> { x: S, y: S, z: S });
rec!("PerspectiveFov", PerspectiveFov<S> { fovy: Rad<S>, aspect: S, near: S, far: S });
rec!("Perspective", Perspective<S> { left: S, right: S, bottom: S, top: S, near: S, far: S });
rec!("Ortho", Ortho<S> { left: S, right: S, bottom: S, top: S, near: S, far: S });
rec!("PlanarFov", PlanarFov<S> { fovy: Rad<S>, aspect: S, height: S, near: S, far: S });

macro_rules! angle {
    ($name:literal, $T:ident) => {
        impl<S: Subject + Copy> Subject for $T<S> {
            fn type_name() -> String {
                format!("{}<{}>", $name, S::type_name())
            }
            fn shape() -> Shape {
                Shape::Bare(Box::new(S::shape()))
            }
            fn gen_kinds(out: &mut Vec<(Kind, GenClass)>) {
                S::gen_kinds(out)
            }
            fn build(c: &mut Cur) -> Self {
                $T(S::build(c))
            }
            fn read(&self, out: &mut Vec<u64>) {
                self.0.read(out)
            }
            fn faithful() -> bool {
                S::faithful()
            }
        }
    };
}
angle!("Rad", Rad);
angle!("Deg", Deg);

impl<S: BaseFloat + Subject> Subject for Basis2<S> {
    fn type_name() -> String {
        format!("Basis2<{}>", S::type_name())
    }
    fn shape() -> Shape {
        Shape::Wrap(Box::new(<Matrix2<S> as Subject>::shape()))
    }
    fn gen_kinds(out: &mut Vec<(Kind, GenClass)>) {
        let mut k = Vec::new();
        S::gen_kinds(&mut k);
        out.push((k[0].0, GenClass::Moderate));
    }
    fn build(c: &mut Cur) -> Self {
        let a = S::build(c);
        Rotation2::from_angle(Rad(a))
    }
    fn read(&self, out: &mut Vec<u64>) {
        let m: &Matrix2<S> = self.as_ref();
        m.read(out)
    }
    fn faithful() -> bool {
        false
    }
}

impl<S: BaseFloat + Subject> Subject for Basis3<S> {
    fn type_name() -> String {
        format!("Basis3<{}>", S::type_name())
    }
    fn shape() -> Shape {
        Shape::Wrap(Box::new(<Matrix3<S> as Subject>::shape()))
    }
    fn gen_kinds(out: &mut Vec<(Kind, GenClass)>) {
        let mut k = Vec::new();
        S::gen_kinds(&mut k);
        for _ in 0..4 {
            out.push((k[0].0, GenClass::Moderate));
        }
    }
    fn build(c: &mut Cur) -> Self {
        let s = S::build(c);
        let x = S::build(c);
        let y = S::build(c);
        let z = S::build(c);
        Basis3::from_quaternion(&Quaternion::new(s, x, y, z))
    }
    fn read(&self, out: &mut Vec<u64>) {
        let m: &Matrix3<S> = self.as_ref();
        m.read(out)
    }
    fn faithful() -> bool {
        false
    }
}

impl<V, R> Subject for Decomposed<V, R>
where
    V: Subject + VectorSpace,
    V::Scalar: Subject,
    R: Subject,
{
    fn type_name() -> String {
        format!("Decomposed<{},{}>", V::type_name(), R::type_name())
    }
    fn shape() -> Shape {
        Shape::Rec(vec![
            ("scale", <V::Scalar as Subject>::shape()),
            ("rot", R::shape()),
            ("disp", V::shape()),
        ])
    }
    fn gen_kinds(out: &mut Vec<(Kind, GenClass)>) {
        <V::Scalar as Subject>::gen_kinds(out);
        R::gen_kinds(out);
        V::gen_kinds(out);
    }
    fn build(c: &mut Cur) -> Self {
        let scale = <V::Scalar as Subject>::build(c);
        let rot = R::build(c);
        let disp = V::build(c);
        Decomposed { scale, rot, disp }
    }
    fn read(&self, out: &mut Vec<u64>) {
        self.scale.read(out);
        self.rot.read(out);
        self.disp.read(out);
    }
    fn faithful() -> bool {
        <V::Scalar as Subject>::faithful() && R::faithful() && V::faithful()
    }
}
