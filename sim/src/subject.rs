//! The values that travel through the simulated medium, and the reference model for them.
//!
//! For every cgmath type under test this file says, *without using cgmath's serde code*:
//!   - its `Shape`: the tree of public field names the property talks about,
//!   - how to build a value from raw leaf bits through public constructors / public fields,
//!   - how to read the leaf bits back through public fields / `AsRef`.
//! The oracle compares what the medium saw and what came back against this.

use crate::node::Kind;
use cgmath::*;
use serde::de::DeserializeOwned;
use serde::Serialize;

/// Restriction on generator leaves.
#[derive(Clone, Copy, PartialEq, Eq, Debug)]
pub enum GenClass {
    /// any finite value of the kind
    Any,
    /// floats of moderate magnitude (inputs of a constructor that does arithmetic)
    Moderate,
}

#[derive(Clone, Debug, PartialEq)]
pub enum Shape {
    Num(Kind),
    /// struct with public fields: keys are asserted
    Rec(Vec<(&'static str, Shape)>),
    /// newtype that must appear as its bare payload (angles)
    Bare(Box<Shape>),
    /// wrapper around one private field (Basis2/Basis3): only the payload is asserted
    Wrap(Box<Shape>),
}

impl Shape {
    /// contains a wrapper around a private field (Basis2 / Basis3)
    pub fn has_wrap(&self) -> bool {
        match self {
            Shape::Num(_) => false,
            Shape::Rec(f) => f.iter().any(|(_, s)| s.has_wrap()),
            Shape::Bare(s) => s.has_wrap(),
            Shape::Wrap(_) => true,
        }
    }
    pub fn n_leaves(&self) -> usize {
        match self {
            Shape::Num(_) => 1,
            Shape::Rec(f) => f.iter().map(|(_, s)| s.n_leaves()).sum(),
            Shape::Bare(s) | Shape::Wrap(s) => s.n_leaves(),
        }
    }
    pub fn leaf_kinds(&self, out: &mut Vec<Kind>) {
        match self {
            Shape::Num(k) => out.push(*k),
            Shape::Rec(f) => f.iter().for_each(|(_, s)| s.leaf_kinds(out)),
            Shape::Bare(s) | Shape::Wrap(s) => s.leaf_kinds(out),
        }
    }
    pub fn render(&self, leaves: &[u64], at: &mut usize, out: &mut String) {
        use std::fmt::Write;
        match self {
            Shape::Num(k) => {
                let b = leaves.get(*at).copied().unwrap_or(0);
                *at += 1;
                let _ = match k {
                    Kind::F32 => write!(out, "{:?}", f32::from_bits(b as u32)),
                    Kind::F64 => write!(out, "{:?}", f64::from_bits(b)),
                    Kind::I8 | Kind::I16 | Kind::I32 | Kind::I64 => write!(out, "{}", b as i64),
                    Kind::I128 => write!(out, "{}", crate::node::wide::show_i(b)),
                    Kind::U128 => write!(out, "{}", crate::node::wide::show_u(b)),
                    _ => write!(out, "{}", b),
                };
            }
            Shape::Rec(f) => {
                out.push('{');
                for (i, (k, s)) in f.iter().enumerate() {
                    if i > 0 {
                        out.push_str(", ");
                    }
                    let _ = write!(out, "{}: ", k);
                    s.render(leaves, at, out);
                }
                out.push('}');
            }
            Shape::Bare(s) => s.render(leaves, at, out),
            Shape::Wrap(s) => {
                out.push_str("wrap(");
                s.render(leaves, at, out);
                out.push(')');
            }
        }
    }
}

pub struct Cur<'a> {
    pub g: &'a [u64],
    pub i: usize,
}

impl<'a> Cur<'a> {
    pub fn new(g: &'a [u64]) -> Self {
        Cur { g, i: 0 }
    }
    #[inline]
    pub fn next(&mut self) -> u64 {
        let v = self.g.get(self.i).copied().unwrap_or(0);
        self.i += 1;
        v
    }
}

pub trait Subject: Serialize + DeserializeOwned + 'static {
    fn type_name() -> String;
    fn shape() -> Shape;
    fn gen_kinds(out: &mut Vec<(Kind, GenClass)>);
    fn build(c: &mut Cur) -> Self;
    fn read(&self, out: &mut Vec<u64>);
    /// `read(build(g)) == g` for every g (false where a constructor does arithmetic)
    fn faithful() -> bool {
        true
    }
    /// Generator leaves (as small integers, converted per leaf kind) of the value an ordinary user
    /// is most likely to hold: zero vector, identity matrix / rotation, unit scale.
    fn identity(out: &mut Vec<i64>);
    /// Byte lane, A8: what the derive(Deserialize)+deny_unknown_fields mirror of this type reads
    /// from the same bytes (leaves, or the error). None where no mirror exists.
    fn mirror_read(_bytes: &[u8], _plan: &crate::bytes::JPlan) -> Option<Result<Vec<u64>, String>> {
        None
    }
}

pub trait Scal: Copy + Serialize + DeserializeOwned + 'static {
    const KIND: Kind;
    fn from_bits64(b: u64) -> Self;
    fn to_bits64(self) -> u64;
}

macro_rules! scal {
    ($t:ty, $k:expr, $from:expr, $to:expr) => {
        impl Scal for $t {
            const KIND: Kind = $k;
            #[inline]
            fn from_bits64(b: u64) -> Self {
                #[allow(clippy::redundant_closure_call)]
                ($from)(b)
            }
            #[inline]
            fn to_bits64(self) -> u64 {
                #[allow(clippy::redundant_closure_call)]
                ($to)(self)
            }
        }
        impl Subject for $t {
            fn type_name() -> String {
                stringify!($t).to_string()
            }
            fn shape() -> Shape {
                Shape::Num($k)
            }
            fn gen_kinds(out: &mut Vec<(Kind, GenClass)>) {
                out.push(($k, GenClass::Any));
            }
            fn build(c: &mut Cur) -> Self {
                <$t as Scal>::from_bits64(c.next())
            }
            fn read(&self, out: &mut Vec<u64>) {
                out.push(self.to_bits64());
            }
            fn identity(out: &mut Vec<i64>) {
                out.push(0);
            }
        }
    };
}

scal!(f32, Kind::F32, |b: u64| f32::from_bits(b as u32), |v: f32| v.to_bits() as u64);
scal!(f64, Kind::F64, |b: u64| f64::from_bits(b), |v: f64| v.to_bits());
scal!(i8, Kind::I8, |b: u64| b as i8, |v: i8| v as i64 as u64);
scal!(i16, Kind::I16, |b: u64| b as i16, |v: i16| v as i64 as u64);
scal!(i32, Kind::I32, |b: u64| b as i32, |v: i32| v as i64 as u64);
scal!(i64, Kind::I64, |b: u64| b as i64, |v: i64| v as u64);
scal!(u8, Kind::U8, |b: u64| b as u8, |v: u8| v as u64);
scal!(u16, Kind::U16, |b: u64| b as u16, |v: u16| v as u64);
scal!(u32, Kind::U32, |b: u64| b as u32, |v: u32| v as u64);
scal!(u64, Kind::U64, |b: u64| b, |v: u64| v);
scal!(isize, Kind::I64, |b: u64| b as i64 as isize, |v: isize| v as i64 as u64);
scal!(usize, Kind::U64, |b: u64| b as usize, |v: usize| v as u64);
scal!(i128, Kind::I128, |b: u64| crate::node::wide::decode(b), |v: i128| crate::node::wide::encode(v));
scal!(u128, Kind::U128, |b: u64| crate::node::wide::decode(b) as u128, |v: u128| crate::node::wide::encode(v as i128));

// Every impl below is for a *concrete* type. A generic `impl<S: Subject> Subject for Vector3<S>`
// would have to prove `Vector3<S>: Serialize` from cgmath's own where-clauses, and would stop
// compiling the moment a change to cgmath tightens a serde bound (e.g. `serde(bound = "A: Zero")`):
// the harness must keep building so that it can judge such a change by running it.

macro_rules! fty {
    (; $S:ty) => { $S };
    ($C:ident; $S:ty) => { $C<$S> };
}

macro_rules! rec_one {
    ($name:literal, $T:ident, $S:ty, { $($f:ident : [$($C:ident)?]),+ }, [$($id:expr),*]) => {
        impl Subject for $T<$S> {
            fn identity(out: &mut Vec<i64>) {
                // the list is per leaf for scalar components; for aggregate components fall back
                // to the components' own identities
                let list: &[i64] = &[$($id),*];
                let mut k = Vec::new();
                <Self as Subject>::gen_kinds(&mut k);
                if k.len() == list.len() {
                    out.extend_from_slice(list);
                } else {
                    $(<fty!($($C)?; $S) as Subject>::identity(out);)+
                }
            }
            fn type_name() -> String { format!("{}<{}>", $name, <$S as Subject>::type_name()) }
            fn shape() -> Shape { Shape::Rec(vec![$((stringify!($f), <fty!($($C)?; $S) as Subject>::shape())),+]) }
            fn gen_kinds(out: &mut Vec<(Kind, GenClass)>) { $(<fty!($($C)?; $S) as Subject>::gen_kinds(out);)+ }
            fn build(c: &mut Cur) -> Self { $(let $f = <fty!($($C)?; $S) as Subject>::build(c);)+ $T { $($f),+ } }
            fn read(&self, out: &mut Vec<u64>) { $(self.$f.read(out);)+ }
            fn faithful() -> bool { true $(&& <fty!($($C)?; $S) as Subject>::faithful())+ }
        }
    };
}

/// Struct with public fields, each itself a Subject, at each listed scalar.
macro_rules! rec {
    ($name:literal, $T:ident, [$($S:ty),+], $fields:tt, $ident:tt) => {
        $(rec_one!($name, $T, $S, $fields, $ident);)+
    };
}

rec!("Vector1", Vector1, [f32, f64, i8, i16, i32, i64, u8, u16, u32, u64], { x: [] }, [0]);
rec!("Vector2", Vector2, [f32, f64, i8, i16, i32, i64, u8, u16, u32, u64, isize, usize, i128, u128, Rad<f32>, Quaternion<f64>, Vector2<f64>], { x: [], y: [] }, [0, 0]);
rec!("Vector3", Vector3, [f32, f64, i8, i16, i32, i64, u8, u16, u32, u64, isize, usize, i128, u128, Rad<f32>, Deg<f64>, Matrix2<f32>], { x: [], y: [], z: [] }, [0, 0, 0]);
rec!("Vector4", Vector4, [f32, f64, i8, i16, i32, i64, u8, u16, u32, u64, Rad<f64>], { x: [], y: [], z: [], w: [] }, [0, 0, 0, 0]);
rec!("Point1", Point1, [f32, f64, i8, i16, i32, i64, u8, u16, u32, u64, Matrix2<f64>], { x: [] }, [0]);
rec!("Point2", Point2, [f32, f64, i8, i16, i32, i64, u8, u16, u32, u64, Deg<f32>, Quaternion<f64>], { x: [], y: [] }, [0, 0]);
rec!("Point3", Point3, [f32, f64, i8, i16, i32, i64, u8, u16, u32, u64, isize, usize, i128, u128, Vector4<f64>], { x: [], y: [], z: [] }, [0, 0, 0]);
rec!("Matrix2", Matrix2, [f32, f64, i32, i64, isize, u128, Rad<f32>], { x: [Vector2], y: [Vector2] }, [1, 0, 0, 1]);
rec!("Matrix3", Matrix3, [f32, f64, i32, i64], { x: [Vector3], y: [Vector3], z: [Vector3] }, [1, 0, 0, 0, 1, 0, 0, 0, 1]);
rec!("Matrix4", Matrix4, [f32, f64, i32, i64], { x: [Vector4], y: [Vector4], z: [Vector4], w: [Vector4] }, [1, 0, 0, 0, 0, 1, 0, 0, 0, 0, 1, 0, 0, 0, 0, 1]);
rec!("Quaternion", Quaternion, [f32, f64, i32, i64, usize, i128, u128], { v: [Vector3], s: [] }, [0, 0, 0, 1]);
rec!("Euler", Euler, [Rad<f32>, Rad<f64>, Deg<f32>, Deg<f64>], { x: [], y: [], z: [] }, [0, 0, 0]);
rec!("PerspectiveFov", PerspectiveFov, [f32, f64], { fovy: [Rad], aspect: [], near: [], far: [] }, [1, 1, 1, 2]);
rec!("Perspective", Perspective, [f32, f64], { left: [], right: [], bottom: [], top: [], near: [], far: [] }, [-1, 1, -1, 1, 1, 2]);
rec!("Ortho", Ortho, [f32, f64], { left: [], right: [], bottom: [], top: [], near: [], far: [] }, [-1, 1, -1, 1, -1, 1]);
rec!("PlanarFov", PlanarFov, [f32, f64], { fovy: [Rad], aspect: [], height: [], near: [], far: [] }, [1, 1, 1, 1, 2]);

macro_rules! angle {
    ($name:literal, $T:ident, [$($S:ty),+]) => {
        $(impl Subject for $T<$S> {
            fn type_name() -> String {
                format!("{}<{}>", $name, <$S as Subject>::type_name())
            }
            fn shape() -> Shape {
                Shape::Bare(Box::new(<$S as Subject>::shape()))
            }
            fn gen_kinds(out: &mut Vec<(Kind, GenClass)>) {
                <$S as Subject>::gen_kinds(out)
            }
            fn build(c: &mut Cur) -> Self {
                $T(<$S as Subject>::build(c))
            }
            fn read(&self, out: &mut Vec<u64>) {
                self.0.read(out)
            }
            fn identity(out: &mut Vec<i64>) {
                out.push(0);
            }
        })+
    };
}
angle!("Rad", Rad, [f32, f64]);
angle!("Deg", Deg, [f32, f64]);

/// Number of extra multiplications for a Basis value: mostly a handful, one time in four tens of
/// thousands (minutes of accumulated per-frame rotation).
pub fn drift_count(leaf: u64) -> usize {
    let d = (leaf & 0xffff) as usize;
    if d % 4 == 0 {
        d
    } else {
        d % 16
    }
}

macro_rules! basis {
    ($($S:ty),+) => {
        $(
        impl Subject for Basis2<$S> {
            fn type_name() -> String {
                format!("Basis2<{}>", <$S as Subject>::type_name())
            }
            fn shape() -> Shape {
                Shape::Wrap(Box::new(<Matrix2<$S> as Subject>::shape()))
            }
            fn gen_kinds(out: &mut Vec<(Kind, GenClass)>) {
                out.push((<$S as Scal>::KIND, GenClass::Moderate));
                // how many further rotations are multiplied on: accumulated rounding makes the
                // matrix drift away from orthonormal, the way a long-running animation does
                out.push((Kind::U16, GenClass::Any));
                out.push((Kind::U8, GenClass::Any));
            }
            fn identity(out: &mut Vec<i64>) {
                out.push(0);
                out.push(0);
                out.push(0);
            }
            fn build(c: &mut Cur) -> Self {
                let a = <$S as Subject>::build(c);
                let n = drift_count(c.next());
                let sel = c.next() % 4;
                let mut rot: Basis2<$S> = match sel {
                    1 => Basis2::look_at_stable(Vector2::new(a, 1.0 as $S), false),
                    2 => Basis2::look_at_stable(Vector2::new(a, 0.5 as $S), true),
                    3 => Rotation::invert(&<Basis2<$S> as Rotation2>::from_angle(Rad(a))),
                    _ => Rotation2::from_angle(Rad(a)),
                };
                {
                    let m: &Matrix2<$S> = rot.as_ref();
                    let e: &[$S; 4] = m.as_ref();
                    if !e.iter().all(|v| v.is_finite()) {
                        rot = Rotation2::from_angle(Rad(a));
                    }
                }
                let step: Basis2<$S> = Rotation2::from_angle(Rad(0.0123 as $S));
                for _ in 0..n {
                    rot = rot * step;
                }
                rot
            }
            fn read(&self, out: &mut Vec<u64>) {
                let m: &Matrix2<$S> = self.as_ref();
                m.read(out)
            }
            fn faithful() -> bool {
                false
            }
        }

        impl Subject for Basis3<$S> {
            fn type_name() -> String {
                format!("Basis3<{}>", <$S as Subject>::type_name())
            }
            fn shape() -> Shape {
                Shape::Wrap(Box::new(<Matrix3<$S> as Subject>::shape()))
            }
            fn gen_kinds(out: &mut Vec<(Kind, GenClass)>) {
                for _ in 0..4 {
                    out.push((<$S as Scal>::KIND, GenClass::Moderate));
                }
                out.push((Kind::U16, GenClass::Any));
                // which public constructor builds the value
                out.push((Kind::U8, GenClass::Any));
            }
            fn identity(out: &mut Vec<i64>) {
                out.extend_from_slice(&[1, 0, 0, 0, 0, 0]);
            }
            fn build(c: &mut Cur) -> Self {
                let s = <$S as Subject>::build(c);
                let x = <$S as Subject>::build(c);
                let y = <$S as Subject>::build(c);
                let z = <$S as Subject>::build(c);
                let n = drift_count(c.next());
                let sel = c.next() % 7;
                // every way the public API offers to obtain a Basis3, also with arguments that
                // ignore documented preconditions (a non-unit axis): whatever finite value comes
                // out is a value a program can hold and store
                let mut rot: Basis3<$S> = match sel {
                    1 => Rotation3::from_axis_angle(Vector3::new(s, x, y), Rad(z)),
                    2 => Basis3::from(Euler { x: Rad(s), y: Rad(x), z: Rad(y) }),
                    3 => Rotation::look_at(Vector3::new(s, x, y), Vector3::new(z, 1.0 as $S, 0.25 as $S)),
                    4 => {
                        let b = Basis3::from_quaternion(&Quaternion::new(s, x, y, z));
                        let m: &Matrix3<$S> = b.as_ref();
                        // (Basis3::invert unwraps the matrix inverse: keep away from singular ones)
                        if m.determinant().abs() > (1e-6 as $S) {
                            Rotation::invert(&b)
                        } else {
                            b
                        }
                    }
                    // a rotation computed in single precision and then stored in this scalar: unit to
                    // f32 accuracy only (data imported from an f32 pipeline)
                    5 => {
                        let q = Quaternion::new(s as f32, x as f32, y as f32, z as f32);
                        let q = if q.magnitude2() > 0.0 { q.normalize() } else { Quaternion::new(1.0f32, 0.0, 0.0, 0.0) };
                        Basis3::from_quaternion(&Quaternion::new(q.s as $S, q.v.x as $S, q.v.y as $S, q.v.z as $S))
                    }
                    6 => {
                        let a = Vector3::new(s as f32, x as f32, y as f32);
                        let a = if a.magnitude2() > 0.0 { a.normalize() } else { Vector3::new(1.0f32, 0.0, 0.0) };
                        Rotation3::from_axis_angle(Vector3::new(a.x as $S, a.y as $S, a.z as $S), Rad(z))
                    }
                    _ => Basis3::from_quaternion(&Quaternion::new(s, x, y, z)),
                };
                let finite = |b: &Basis3<$S>| {
                    let m: &Matrix3<$S> = b.as_ref();
                    let a: &[$S; 9] = m.as_ref();
                    a.iter().all(|v| v.is_finite())
                };
                if !finite(&rot) {
                    rot = Basis3::from_quaternion(&Quaternion::new(s, x, y, z));
                }
                let step: Basis3<$S> = Rotation3::from_angle_z(Rad(0.0123 as $S));
                for _ in 0..n {
                    rot = rot * step;
                }
                rot
            }
            fn read(&self, out: &mut Vec<u64>) {
                let m: &Matrix3<$S> = self.as_ref();
                m.read(out)
            }
            fn faithful() -> bool {
                false
            }
        }
        )+
    };
}
basis!(f32, f64);

macro_rules! decomposed {
    ($([$V:ty, $R:ty, $S:ty]),+ $(,)?) => {
        $(
        impl Subject for Decomposed<$V, $R> {
            fn type_name() -> String {
                format!("Decomposed<{},{}>", <$V as Subject>::type_name(), <$R as Subject>::type_name())
            }
            fn shape() -> Shape {
                Shape::Rec(vec![
                    ("scale", <$S as Subject>::shape()),
                    ("rot", <$R as Subject>::shape()),
                    ("disp", <$V as Subject>::shape()),
                ])
            }
            fn gen_kinds(out: &mut Vec<(Kind, GenClass)>) {
                <$S as Subject>::gen_kinds(out);
                <$R as Subject>::gen_kinds(out);
                <$V as Subject>::gen_kinds(out);
            }
            fn identity(out: &mut Vec<i64>) {
                out.push(1);
                <$R as Subject>::identity(out);
                <$V as Subject>::identity(out);
            }
            fn build(c: &mut Cur) -> Self {
                let scale = <$S as Subject>::build(c);
                let rot = <$R as Subject>::build(c);
                let disp = <$V as Subject>::build(c);
                Decomposed { scale, rot, disp }
            }
            fn read(&self, out: &mut Vec<u64>) {
                self.scale.read(out);
                self.rot.read(out);
                self.disp.read(out);
            }
            fn faithful() -> bool {
                <$S as Subject>::faithful() && <$R as Subject>::faithful() && <$V as Subject>::faithful()
            }
            fn mirror_read(bytes: &[u8], plan: &crate::bytes::JPlan) -> Option<Result<Vec<u64>, String>> {
                let mut st = (0u32, false, 0u32, 0u32);
                let r: Result<crate::bytes::MirrorDecomposed<$S, $R, $V>, String> =
                    crate::bytes::read_json(bytes, plan, &mut st);
                Some(r.map(|d| {
                    let mut g = Vec::new();
                    d.scale.read(&mut g);
                    d.rot.read(&mut g);
                    d.disp.read(&mut g);
                    g
                }))
            }
        }
        )+
    };
}

decomposed!(
    [Vector3<f32>, Quaternion<f32>, f32],
    [Vector3<f64>, Quaternion<f64>, f64],
    [Vector3<f32>, Basis3<f32>, f32],
    [Vector3<f64>, Basis3<f64>, f64],
    [Vector2<f32>, Basis2<f32>, f32],
    [Vector2<f64>, Basis2<f64>, f64],
    [Vector4<f64>, Matrix4<f64>, f64],
    [Vector1<f32>, Rad<f32>, f32],
    [Vector2<f64>, Euler<Deg<f64>>, f64],
    [Vector3<i32>, Quaternion<i32>, i32],
    [Vector3<f64>, Matrix3<f64>, f64],
    [Vector3<f32>, Euler<Rad<f32>>, f32],
    [Vector3<i64>, Quaternion<i64>, i64],
    [Vector3<u64>, Vector3<u64>, u64],
    [Vector2<u8>, Vector2<u8>, u8],
    [Vector3<i16>, Point3<i16>, i16],
    [Vector3<f64>, Quaternion<f32>, f64],
    [Vector4<f32>, Matrix3<f64>, f32],
    [Vector3<i128>, Quaternion<i128>, i128],
    [Vector2<usize>, Vector2<usize>, usize],
);
