//! Byte-level lane: the same property, end to end through the format the repository's own serde
//! test uses. cgmath's impls talk to the real serde_json, which talks to a simulated disk:
//! `FaultyWriter: io::Write` (short writes, EINTR, a failing write call) and `FaultyReader:
//! io::Read` (short reads, EINTR, a failing read, a file that ends early, a flipped bit).
//!
//! Structural faults (reorder / drop / unknown / duplicate) are applied by re-emitting the stored
//! record as JSON text with the plan's delivery order; JSON objects are unordered by definition,
//! so every such text is a legal encoding of "the result" of serialization.

use crate::medium::*;
use crate::node::*;
use crate::oracle::*;
use crate::rng::Fnv;
use crate::source::*;
use crate::store::Store;
use crate::subject::*;
use serde::de::DeserializeOwned;
use serde::{Deserialize, Serialize};
use std::io::{self, Read, Write};
use std::panic::{catch_unwind, AssertUnwindSafe};

#[derive(Clone, Copy, PartialEq, Eq, Debug, Hash, Serialize, Deserialize)]
pub enum JReader {
    /// serde_json::from_reader over FaultyReader (keys arrive through visit_str)
    Reader,
    /// serde_json::from_slice (keys arrive through visit_borrowed_str unless escaped)
    Slice,
    /// serde_json::from_str
    Str,
    /// serde_json::from_reader over BufReader<FaultyReader> (large reads, so short reads fire)
    Buffered,
    /// text -> serde_json::Value -> serde_json::from_value: keys arrive as owned Strings in
    /// sorted order, duplicates have already been merged by the Value
    Value,
    /// the value sits behind `#[serde(flatten)]` in a caller's struct: serde buffers the outer map
    /// and hands the type only the entries named in its `fields` list, keys as owned Strings
    Flatten,
    /// the value is the only variant of a caller's `#[serde(untagged)]` enum: serde buffers the
    /// whole input as Content and replays it
    Untagged,
    /// the value is read on its own AND inside the containers real programs put it in — a Vec of
    /// two, a tuple between two sentinels, a map value, two values back to back in one stream
    /// (StreamDeserializer), an internally tagged enum — and every one of them must agree with the
    /// plain read; the first outcome that differs is what the oracle gets to see
    Containers,
}

/// A caller's internally tagged enum around a cgmath record.
#[derive(Deserialize)]
#[serde(tag = "kind", bound(deserialize = "T: DeserializeOwned"))]
pub enum TaggedWrap<T> {
    Only(T),
}

/// A caller's struct embedding a cgmath record with `flatten`.
#[derive(Deserialize)]
#[serde(bound(deserialize = "T: DeserializeOwned"))]
pub struct FlatWrap<T> {
    #[allow(dead_code)]
    pub tag: u32,
    #[serde(flatten)]
    pub inner: T,
}

/// A caller's untagged enum around a cgmath value.
#[derive(Deserialize)]
#[serde(untagged, bound(deserialize = "T: DeserializeOwned"))]
pub enum UntaggedWrap<T> {
    Only(T),
}

#[derive(Clone, Debug, PartialEq, Serialize, Deserialize)]
pub struct JPlan {
    pub ty: String,
    pub gen: Vec<u64>,
    pub patch: Option<Vec<u64>>,
    pub pretty: bool,
    /// write(): at most this many bytes accepted per call (0 = no limit)
    pub w_chunk: u16,
    /// write(): every n-th call returns ErrorKind::Interrupted (0 = never)
    pub w_eintr_every: u16,
    /// write(): call number `step` fails with an I/O error (Permanent: and every later one)
    pub w_err: Option<WFault>,
    /// structural faults applied when the stored record is re-emitted as text
    pub rfaults: Vec<RFault>,
    /// emitter: write the first character of every key as a \uXXXX escape
    pub escape_keys: bool,
    /// emitter: 0 compact, 1 spaces, 2 newlines and indentation
    pub ws: u8,
    pub reader: JReader,
    pub r_chunk: u16,
    pub r_eintr_every: u16,
    /// read(): fails (permanently) once this byte offset is reached
    pub r_err_at: Option<u32>,
    /// the stored bytes end here (crash after a partial write; restart reads what survived)
    pub trunc_at: Option<u32>,
    /// one stored bit is flipped: (byte offset, bit)
    pub flip: Option<(u32, u8)>,
    pub retry: bool,
    /// read through `Deserialize::deserialize_in_place` into an existing (different) value
    #[serde(default)]
    pub in_place: bool,
    /// the value of this entry (path of entry indices) is written as `null` in the text that is read
    #[serde(default)]
    pub null_field: Option<Vec<u8>>,
}

impl JPlan {
    pub fn base(ty: &str, gen: Vec<u64>) -> JPlan {
        JPlan {
            ty: ty.to_string(),
            gen,
            patch: None,
            pretty: false,
            w_chunk: 0,
            w_eintr_every: 0,
            w_err: None,
            rfaults: vec![],
            escape_keys: false,
            ws: 0,
            reader: JReader::Reader,
            r_chunk: 0,
            r_eintr_every: 0,
            r_err_at: None,
            trunc_at: None,
            flip: None,
            retry: false,
            in_place: false,
            null_field: None,
        }
    }
}

// ---- the simulated disk ----------------------------------------------------------------------

pub struct FaultyWriter<'p> {
    pub disk: Vec<u8>,
    pub calls: u32,
    plan: &'p JPlan,
    dead: bool,
    pub err_fired: Option<u32>,
    pub eintr_fired: u32,
    pub short_fired: u32,
}

impl<'p> FaultyWriter<'p> {
    pub fn new(plan: &'p JPlan) -> Self {
        FaultyWriter { disk: Vec::with_capacity(512), calls: 0, plan, dead: false, err_fired: None, eintr_fired: 0, short_fired: 0 }
    }
}

impl<'p> Write for FaultyWriter<'p> {
    fn write(&mut self, buf: &[u8]) -> io::Result<usize> {
        let k = self.calls;
        self.calls += 1;
        if self.calls > 100_000 {
            if self.calls > 400_000 {
                panic!("write side does not terminate");
            }
            return Err(io::Error::new(io::ErrorKind::Other, "write call cap exceeded"));
        }
        if self.dead {
            return Err(io::Error::new(io::ErrorKind::Other, "injected: device gone"));
        }
        if let Some(f) = self.plan.w_err {
            if f.step == k {
                if f.kind == WKind::Permanent {
                    self.dead = true;
                }
                if self.err_fired.is_none() {
                    self.err_fired = Some(k);
                }
                return Err(io::Error::new(io::ErrorKind::Other, "injected: write failed"));
            }
        }
        let e = self.plan.w_eintr_every as u32;
        if e > 0 && (k + 1) % e == 0 {
            self.eintr_fired += 1;
            return Err(io::Error::new(io::ErrorKind::Interrupted, "injected: EINTR"));
        }
        let mut n = buf.len();
        let c = self.plan.w_chunk as usize;
        if c > 0 && n > c {
            n = c;
            self.short_fired += 1;
        }
        self.disk.extend_from_slice(&buf[..n]);
        Ok(n)
    }
    fn flush(&mut self) -> io::Result<()> {
        Ok(())
    }
}

pub struct FaultyReader<'a> {
    data: &'a [u8],
    pos: usize,
    calls: u32,
    chunk: usize,
    eintr_every: u32,
    err_at: Option<usize>,
    pub err_fired: bool,
    pub eintr_fired: u32,
    pub short_fired: u32,
}

impl<'a> FaultyReader<'a> {
    pub fn new(data: &'a [u8], plan: &JPlan) -> Self {
        FaultyReader {
            data,
            pos: 0,
            calls: 0,
            chunk: plan.r_chunk as usize,
            eintr_every: plan.r_eintr_every as u32,
            err_at: plan.r_err_at.map(|x| x as usize),
            err_fired: false,
            eintr_fired: 0,
            short_fired: 0,
        }
    }
}

impl<'a> Read for FaultyReader<'a> {
    fn read(&mut self, buf: &mut [u8]) -> io::Result<usize> {
        let k = self.calls;
        self.calls += 1;
        if self.calls > 1_000_000 {
            if self.calls > 4_000_000 {
                panic!("read side does not terminate");
            }
            return Err(io::Error::new(io::ErrorKind::Other, "read call cap exceeded"));
        }
        if self.eintr_every > 0 && (k + 1) % self.eintr_every == 0 {
            self.eintr_fired += 1;
            return Err(io::Error::new(io::ErrorKind::Interrupted, "injected: EINTR"));
        }
        let mut end = self.data.len();
        if let Some(e) = self.err_at {
            if self.pos >= e {
                self.err_fired = true;
                return Err(io::Error::new(io::ErrorKind::Other, "injected: read failed"));
            }
            end = end.min(e);
        }
        let mut n = buf.len().min(end - self.pos.min(end));
        if self.chunk > 0 && n > self.chunk {
            n = self.chunk;
            self.short_fired += 1;
        }
        buf[..n].copy_from_slice(&self.data[self.pos..self.pos + n]);
        self.pos += n;
        Ok(n)
    }
}

// ---- number text, exactly as serde_json writes and reads it -----------------------------------

fn num_text(kind: Kind, bits: u64) -> String {
    let r = match kind {
        Kind::F32 => serde_json::to_string(&f32::from_bits(bits as u32)),
        Kind::F64 => serde_json::to_string(&f64::from_bits(bits)),
        Kind::I8 | Kind::I16 | Kind::I32 | Kind::I64 => serde_json::to_string(&(bits as i64)),
        Kind::I128 => serde_json::to_string(&crate::node::wide::decode(bits)),
        Kind::U128 => serde_json::to_string(&(crate::node::wide::decode(bits) as u128)),
        Kind::Bool => serde_json::to_string(&(bits != 0)),
        _ => serde_json::to_string(&bits),
    };
    r.unwrap_or_else(|_| "null".to_string())
}

/// What a std primitive of this kind reads back from serde_json's own text for it. This is the
/// differential baseline: whatever serde_json does to a number, it does to both sides.
fn json_echo(kind: Kind, bits: u64) -> u64 {
    let t = num_text(kind, bits);
    match kind {
        Kind::F32 => serde_json::from_str::<f32>(&t).map(|x| x.to_bits() as u64).unwrap_or(bits),
        Kind::F64 => serde_json::from_str::<f64>(&t).map(|x| x.to_bits()).unwrap_or(bits),
        _ => bits,
    }
}

// ---- re-emitting the stored record as JSON text -----------------------------------------------

struct Emitter<'a> {
    faults: &'a [RFault],
    unknown_vals: &'a [Node],
    applied: Vec<bool>,
    opened: Vec<(SmallPath, Vec<Deliver>)>,
    escape_keys: bool,
    ws: u8,
    out: String,
    /// byte offset just after each top-level entry's value, by original index (first delivery)
    top_value_end: Vec<Option<usize>>,
}

impl<'a> Emitter<'a> {
    fn nl(&mut self, depth: usize) {
        match self.ws {
            1 => self.out.push(' '),
            2 => {
                self.out.push('\n');
                for _ in 0..depth {
                    self.out.push_str("  ");
                }
            }
            _ => {}
        }
    }

    fn key(&mut self, k: &str) {
        self.out.push('"');
        for (i, c) in k.chars().enumerate() {
            if (self.escape_keys && i == 0) || (c as u32) < 0x20 {
                self.out.push_str(&format!("\\u{:04x}", c as u32));
            } else if c == '"' || c == '\\' {
                self.out.push('\\');
                self.out.push(c);
            } else {
                self.out.push(c);
            }
        }
        self.out.push('"');
    }

    fn node(&mut self, n: &Node, path: SmallPath, depth: usize) {
        match n {
            Node::Num { kind, bits } => self.out.push_str(&num_text(*kind, *bits)),
            Node::Str(s) => self.out.push_str(&serde_json::to_string(s).unwrap_or_default()),
            Node::Unit | Node::None => self.out.push_str("null"),
            Node::Some(inner) | Node::Newtype { inner, .. } => self.node(inner, path, depth),
            Node::Seq { items, .. } => {
                self.out.push('[');
                for (i, it) in items.iter().enumerate() {
                    if i > 0 {
                        self.out.push(',');
                    }
                    let mut p = path;
                    p.len = 0xff;
                    self.node(it, p, depth + 1);
                }
                self.out.push(']');
            }
            Node::Struct { entries, .. } => {
                let order = if path.valid() {
                    delivery_order(self.faults, path.as_slice(), entries.len(), &mut self.applied)
                } else {
                    (0..entries.len() as u8).map(Deliver::Orig).collect()
                };
                if path.valid() {
                    self.opened.push((path, order.clone()));
                }
                self.out.push('{');
                for (j, d) in order.iter().enumerate() {
                    if j > 0 {
                        self.out.push(',');
                    }
                    self.nl(depth + 1);
                    match d {
                        Deliver::Orig(i) => {
                            let (k, v) = &entries[*i as usize];
                            self.key(k);
                            self.out.push(':');
                            if self.ws > 0 {
                                self.out.push(' ');
                            }
                            self.node(v, path.child(*i as usize), depth + 1);
                            if path.len == 0 {
                                let slot = &mut self.top_value_end[*i as usize];
                                if slot.is_none() {
                                    *slot = Some(self.out.len());
                                }
                            }
                        }
                        Deliver::Unknown(fi) => {
                            let k = match &self.faults[*fi as usize] {
                                RFault::Unknown { key, .. } => key.clone(),
                                _ => String::new(),
                            };
                            self.key(&k);
                            self.out.push(':');
                            let mut p = path;
                            p.len = 0xff;
                            let uv = &self.unknown_vals[*fi as usize];
                            self.node(uv, p, depth + 1);
                        }
                    }
                }
                if !order.is_empty() {
                    self.nl(depth);
                }
                self.out.push('}');
            }
            _ => self.out.push_str("null"),
        }
    }
}

// ---- A2 over the bytes cgmath wrote -----------------------------------------------------------

fn check_value(v: &serde_json::Value, shape: &Shape, leaves: &[u64], at: &mut usize, path: &mut Vec<String>) -> Result<(), String> {
    use serde_json::Value;
    match shape {
        Shape::Num(k) => {
            let bits = leaves.get(*at).copied().unwrap_or(0);
            *at += 1;
            let want: Value = serde_json::from_str(&num_text(*k, bits)).unwrap_or(Value::Null);
            // a float written with more digits than its own shortest text (f32 written as f64) is the
            // same component as long as it denotes exactly the same value
            let widened: Option<u64> = match k {
                Kind::F32 => Some((f32::from_bits(bits as u32) as f64).to_bits()),
                Kind::F64 => Some(bits),
                _ => None,
            };
            let same_float = |v: &Value| match (widened, v.as_f64()) {
                (Some(w), Some(g)) => v.is_f64() && g.to_bits() == w,
                _ => false,
            };
            match v {
                Value::Number(_) if *v == want || same_float(v) => Ok(()),
                Value::Number(_) => Err(format!("component {}: JSON holds {} but the value's own text is {}", path.join("."), v, want)),
                other => Err(format!("component {}: expected a bare number, JSON holds {}", path.join("."), other)),
            }
        }
        Shape::Bare(inner) => match v {
            Value::Number(_) => check_value(v, inner, leaves, at, path),
            other => Err(format!("angle {} is not a bare number: {}", path.join("."), other)),
        },
        Shape::Wrap(inner) => match v {
            Value::Object(m) if m.len() == 1 => {
                let (k, x) = m.iter().next().unwrap();
                path.push(k.clone());
                let r = check_value(x, inner, leaves, at, path);
                path.pop();
                r
            }
            _ => check_value(v, inner, leaves, at, path),
        },
        Shape::Rec(fields) => match v {
            Value::Object(m) => {
                if m.len() != fields.len() {
                    return Err(format!(
                        "record {}: expected fields {:?}, JSON holds {:?}",
                        path.join("."),
                        fields.iter().map(|f| f.0).collect::<Vec<_>>(),
                        m.keys().collect::<Vec<_>>()
                    ));
                }
                for (name, fs) in fields {
                    match m.get(*name) {
                        Some(x) => {
                            path.push(name.to_string());
                            let r = check_value(x, fs, leaves, at, path);
                            path.pop();
                            r?;
                        }
                        None => {
                            return Err(format!(
                                "record {}: no field named {:?}; JSON holds {:?}",
                                path.join("."),
                                name,
                                m.keys().collect::<Vec<_>>()
                            ))
                        }
                    }
                }
                Ok(())
            }
            other => Err(format!("record {}: expected an object with named fields, JSON holds {}", path.join("."), other)),
        },
    }
}

// ---- top-level key scan (for A8's duplicate-key exemption) -------------------------------------

struct TopKeys(Vec<String>);

impl<'de> Deserialize<'de> for TopKeys {
    fn deserialize<D: serde::Deserializer<'de>>(d: D) -> Result<Self, D::Error> {
        struct V;
        impl<'de> serde::de::Visitor<'de> for V {
            type Value = TopKeys;
            fn expecting(&self, f: &mut std::fmt::Formatter) -> std::fmt::Result {
                f.write_str("an object")
            }
            fn visit_map<A: serde::de::MapAccess<'de>>(self, mut a: A) -> Result<TopKeys, A::Error> {
                let mut keys = Vec::new();
                while let Some(k) = a.next_key::<String>()? {
                    keys.push(k);
                    a.next_value::<serde::de::IgnoredAny>()?;
                }
                Ok(TopKeys(keys))
            }
        }
        d.deserialize_map(V)
    }
}

/// Mirror of Decomposed for A8: the same nested cgmath types, but the top level is serde_derive
/// output with deny_unknown_fields — "accept any order, reject missing, reject unknown" as the
/// derive macro understands it.
#[derive(Deserialize)]
#[serde(deny_unknown_fields)]
#[serde(bound(deserialize = "S: DeserializeOwned, R: DeserializeOwned, V: DeserializeOwned"))]
pub struct MirrorDecomposed<S, R, V> {
    pub scale: S,
    pub rot: R,
    pub disp: V,
}

fn panic_msg(p: Box<dyn std::any::Any + Send>) -> String {
    if let Some(s) = p.downcast_ref::<&str>() {
        s.to_string()
    } else if let Some(s) = p.downcast_ref::<String>() {
        s.clone()
    } else {
        "panic".to_string()
    }
}

/// Same as `read_json`, but through `deserialize_in_place` into a pre-existing value.
pub fn read_json_in_place<T: Subject>(bytes: &[u8], plan: &JPlan, stats: &mut (u32, bool, u32, u32)) -> Result<T, String> {
    let r = catch_unwind(AssertUnwindSafe(|| {
        let mut place: T = stale_value::<T>();
        match plan.reader {
            JReader::Reader | JReader::Buffered => {
                let mut rd = FaultyReader::new(bytes, plan);
                let r = {
                    let mut de = serde_json::Deserializer::from_reader(&mut rd);
                    T::deserialize_in_place(&mut de, &mut place).and_then(|()| de.end()).map_err(|e| e.to_string())
                };
                *stats = (rd.calls, rd.err_fired, rd.eintr_fired, rd.short_fired);
                r.map(|()| place)
            }
            _ => {
                let mut de = serde_json::Deserializer::from_slice(bytes);
                T::deserialize_in_place(&mut de, &mut place).and_then(|()| de.end()).map_err(|e| e.to_string()).map(|()| place)
            }
        }
    }));
    match r {
        Ok(x) => x,
        Err(p) => Err(format!("PANIC: {}", panic_msg(p))),
    }
}

pub fn read_json<T: DeserializeOwned>(bytes: &[u8], plan: &JPlan, stats: &mut (u32, bool, u32, u32)) -> Result<T, String> {
    let r = catch_unwind(AssertUnwindSafe(|| match plan.reader {
        JReader::Reader => {
            let mut rd = FaultyReader::new(bytes, plan);
            let r = serde_json::from_reader::<_, T>(&mut rd).map_err(|e| e.to_string());
            *stats = (rd.calls, rd.err_fired, rd.eintr_fired, rd.short_fired);
            r
        }
        JReader::Buffered => {
            let mut rd = FaultyReader::new(bytes, plan);
            let r = serde_json::from_reader::<_, T>(io::BufReader::with_capacity(64, &mut rd)).map_err(|e| e.to_string());
            *stats = (rd.calls, rd.err_fired, rd.eintr_fired, rd.short_fired);
            r
        }
        JReader::Flatten => {
            // splice the wrapper's own field in front of the record's entries
            let mut t = Vec::with_capacity(bytes.len() + 10);
            let i = bytes.iter().position(|c| !c.is_ascii_whitespace()).unwrap_or(0);
            if bytes.get(i) == Some(&b'{') {
                t.extend_from_slice(&bytes[..=i]);
                let rest = &bytes[i + 1..];
                let empty = rest.iter().find(|c| !c.is_ascii_whitespace()) == Some(&b'}');
                t.extend_from_slice(if empty { b"\"tag\":7" } else { b"\"tag\":7," });
                t.extend_from_slice(rest);
                serde_json::from_slice::<FlatWrap<T>>(&t).map(|w| w.inner).map_err(|e| e.to_string())
            } else {
                serde_json::from_slice::<T>(bytes).map_err(|e| e.to_string())
            }
        }
        JReader::Untagged => serde_json::from_slice::<UntaggedWrap<T>>(bytes)
            .map(|UntaggedWrap::Only(x)| x)
            .map_err(|e| e.to_string()),
        JReader::Value => serde_json::from_slice::<serde_json::Value>(bytes)
            .and_then(serde_json::from_value::<T>)
            .map_err(|e| e.to_string()),
        JReader::Slice | JReader::Containers => serde_json::from_slice::<T>(bytes).map_err(|e| e.to_string()),
        JReader::Str => match std::str::from_utf8(bytes) {
            Ok(s) => serde_json::from_str::<T>(s).map_err(|e| e.to_string()),
            Err(_) => serde_json::from_slice::<T>(bytes).map_err(|e| e.to_string()),
        },
    }));
    match r {
        Ok(x) => x,
        Err(p) => Err(format!("PANIC: {}", panic_msg(p))),
    }
}

/// What the write side of the byte lane reports.
pub struct JWrite {
    pub result: Result<(), String>,
    pub disk: Vec<u8>,
    pub calls: u32,
    pub err_fired: Option<u32>,
    pub eintr: u32,
    pub short: u32,
    /// the stored record as a tree (a fault-free event-level write of the same value)
    pub tree: Option<Node>,
}

/// Generic part of the byte-lane write: build the value, serde_json it onto the faulty disk, and
/// take its tree.
pub fn write_json_gen<T: Subject>(gen: &[u64], plan: &JPlan) -> JWrite {
    let mut w = FaultyWriter::new(plan);
    let mut tree = None;
    let r = catch_unwind(AssertUnwindSafe(|| {
        let v = T::build(&mut Cur::new(gen));
        let mut st = Store::new(Medium::DEFAULT, &[]);
        if v.serialize(&mut st).is_ok() {
            tree = st.root.take();
        }
        if plan.pretty {
            serde_json::to_writer_pretty(&mut w, &v).map_err(|e| e.to_string())
        } else {
            serde_json::to_writer(&mut w, &v).map_err(|e| e.to_string())
        }
    }));
    let r = match r {
        Ok(x) => x,
        Err(p) => Err(format!("PANIC: {}", panic_msg(p))),
    };
    JWrite { result: r, disk: std::mem::take(&mut w.disk), calls: w.calls, err_fired: w.err_fired, eintr: w.eintr_fired, short: w.short_fired, tree }
}

/// Generic part of the byte-lane read: deserialize (plainly or in place) and turn the value into leaves.
pub fn read_json_leaves<T: Subject>(bytes: &[u8], plan: &JPlan, stats: &mut (u32, bool, u32, u32)) -> Result<Vec<u64>, String> {
    let r: Result<T, String> = if plan.in_place && !matches!(plan.reader, JReader::Value | JReader::Flatten | JReader::Untagged) {
        read_json_in_place(bytes, plan, stats)
    } else {
        read_json(bytes, plan, stats)
    };
    let direct = r.map(|v| {
        let mut g = Vec::new();
        v.read(&mut g);
        g
    });
    if plan.reader != JReader::Containers {
        return direct;
    }
    // the same text inside containers
    let leaves = |v: &T| {
        let mut g = Vec::new();
        v.read(&mut g);
        g
    };
    let text = String::from_utf8_lossy(bytes).into_owned();
    let wide = {
        let mut k = Vec::new();
        T::shape().leaf_kinds(&mut k);
        k.iter().any(|x| matches!(x, Kind::I128 | Kind::U128))
    };
    let mut outcomes: Vec<(&'static str, Result<Vec<u64>, String>)> = Vec::new();
    let run = |f: &dyn Fn() -> Result<Vec<Vec<u64>>, String>| -> Vec<Result<Vec<u64>, String>> {
        match catch_unwind(AssertUnwindSafe(f)) {
            Ok(Ok(vs)) => vs.into_iter().map(Ok).collect(),
            Ok(Err(e)) => vec![Err(e)],
            Err(p) => vec![Err(format!("PANIC: {}", panic_msg(p)))],
        }
    };
    for r in run(&|| serde_json::from_str::<Vec<T>>(&format!("[{},{}]", text, text)).map(|v| v.iter().map(leaves).collect()).map_err(|e| e.to_string())) {
        outcomes.push(("inside Vec<T>", r));
    }
    for r in run(&|| serde_json::from_str::<(u8, T, u8)>(&format!("[7,{},9]", text)).map(|v| vec![leaves(&v.1)]).map_err(|e| e.to_string())) {
        outcomes.push(("inside a tuple between two sentinels", r));
    }
    for r in run(&|| {
        serde_json::from_str::<std::collections::BTreeMap<String, T>>(&format!("{{\"a\":{},\"b\":{}}}", text, text))
            .map(|m| m.values().map(leaves).collect())
            .map_err(|e| e.to_string())
    }) {
        outcomes.push(("as a map value", r));
    }
    for r in run(&|| {
        let two = format!("{}\n{}", text, text);
        let mut out = Vec::new();
        for item in serde_json::Deserializer::from_str(&two).into_iter::<T>() {
            out.push(leaves(&item.map_err(|e| e.to_string())?));
        }
        if out.len() != 2 {
            return Err(format!("stream of two values yielded {}", out.len()));
        }
        Ok(out)
    }) {
        outcomes.push(("two values back to back in one stream", r));
    }
    let i = bytes.iter().position(|c| !c.is_ascii_whitespace()).unwrap_or(0);
    if bytes.get(i) == Some(&b'{') && !wide {
        let rest = &text[i + 1..];
        let empty = rest.trim_start().starts_with('}');
        let tagged = format!("{{\"kind\":\"Only\"{}{}", if empty { "" } else { "," }, rest);
        for r in run(&|| serde_json::from_str::<TaggedWrap<T>>(&tagged).map(|TaggedWrap::Only(v)| vec![leaves(&v)]).map_err(|e| e.to_string())) {
            outcomes.push(("inside an internally tagged enum", r));
        }
    }
    for (what, o) in outcomes {
        let same = match (&direct, &o) {
            (Ok(a), Ok(b)) => a == b,
            (Err(_), Err(_)) => true,
            _ => false,
        };
        if !same {
            // hand the oracle the outcome that differs from the plain read
            return match o {
                Ok(v) => Ok(v),
                Err(e) => Err(format!("{} ({}; the plain read gave {})", e, what, if direct.is_ok() { "Ok" } else { "Err" })),
            };
        }
    }
    direct
}

/// Execute one byte-level plan for the type behind `ops`.
pub fn run_json(ops: &dyn Ops, plan: &JPlan, opts: RunOpts) -> Outcome {
    // serde's own Content buffer (behind flatten / untagged) cannot carry 128-bit integers for
    // any type, cgmath's or not: such values go through the plain slice reader instead
    let wide = {
        let mut k = Vec::new();
        ops.shape().leaf_kinds(&mut k);
        k.iter().any(|x| matches!(x, Kind::I128 | Kind::U128))
    };
    let adjusted;
    let plan = if wide && matches!(plan.reader, JReader::Flatten | JReader::Untagged | JReader::Value) {
        adjusted = JPlan { reader: JReader::Slice, ..plan.clone() };
        &adjusted
    } else {
        plan
    };
    let mut out = Outcome::default();
    let mut log = Fnv::default();
    let shape = ops.shape();
    let is_dec = is_decomposed_name(&plan.ty);

    macro_rules! eval {
        ($id:expr) => {
            out.evaluated[assert_index($id)] += 1
        };
    }
    macro_rules! fail {
        ($id:expr, $($arg:tt)*) => {{
            if out.failure.is_none() {
                out.failure = Some(Failure { assert_id: $id, observed: format!($($arg)*) });
            }
        }};
    }

    let m = match ops.model(&plan.gen) {
        Ok(x) => x,
        Err(p) => {
            out.harness_error = Some(format!("building the value panicked: {}", p));
            return out;
        }
    };
    if ops.faithful() && m != plan.gen {
        out.harness_error = Some("model mismatch".to_string());
        return out;
    }
    let mut kinds = Vec::new();
    shape.leaf_kinds(&mut kinds);
    // JSON cannot carry non-finite numbers; the quantifier excludes them
    for (k, b) in kinds.iter().zip(m.iter()) {
        let finite = match k {
            Kind::F32 => f32::from_bits(*b as u32).is_finite(),
            Kind::F64 => f64::from_bits(*b).is_finite(),
            _ => true,
        };
        if !finite {
            out.harness_error = Some("generator produced a non-finite float for the JSON lane".to_string());
            return out;
        }
    }
    for x in &m {
        log.u64(*x);
    }

    // ---- write through serde_json onto the faulty disk -------------------------------------
    let JWrite { result: wres, disk, calls: wcalls, err_fired: werr, eintr: weintr, short: wshort, tree: written_tree } = ops.write_json(&plan.gen, plan);
    out.wsteps = wcalls;
    out.write_ok = Some(wres.is_ok());
    log.bytes(&disk);
    log.u64(wres.is_ok() as u64);
    log.u64(werr.map(|x| x as u64 + 1).unwrap_or(0));
    if let Some(k) = werr {
        out.wfired.push(crate::store::FiredW {
            step: k,
            kind: plan.w_err.map(|f| f.kind).unwrap_or(WKind::Transient),
            what: crate::store::WStep::Misc,
            depth: 0,
        });
    }
    out.jstats.is_json = true;
    out.jstats.w_eintr = weintr;
    out.jstats.w_short = wshort;
    out.jstats.escaped_keys = plan.escape_keys;
    out.jstats.reader = plan.reader as u8;
    let wfaulted = werr.is_some();
    if let Err(e) = &wres {
        if e.contains("does not terminate") {
            eval!("AR");
            fail!("AR", "to_writer did not return although every write call was failing ({})", e);
        }
    }

    // what a std value of each leaf's kind would read back from serde_json's own text for it
    let echo: Vec<u64> = kinds.iter().zip(m.iter()).map(|(k, b)| json_echo(*k, *b)).collect();
    if echo != m {
        out.jstats.format_lossy = true;
    }

    // the stored record as a tree (names as cgmath writes them), via a fault-free event-level write
    let tree_ok = written_tree.is_some();
    let mut tree = written_tree;
    let mut leaf_paths: Vec<SmallPath> = Vec::new();
    if let (true, Some(t)) = (tree_ok, tree.as_ref()) {
        let mut at = 0;
        if check_structure(t, &shape, &m, &mut at, SmallPath::root(), &mut leaf_paths).is_err() {
            leaf_paths.clear();
        }
    }

    let mut disk_ok = false;
    if !wfaulted {
        eval!("A1");
        match &wres {
            Err(e) => fail!("A1", "serde_json::to_writer failed on a fault-free disk (short writes / EINTR only): {}", e),
            Ok(()) => {
                eval!("A2");
                match serde_json::from_slice::<serde_json::Value>(&disk) {
                    Err(e) => fail!("A2", "the bytes written are not JSON: {} ({:?})", e, String::from_utf8_lossy(&disk)),
                    Ok(val) => {
                        let mut at = 0;
                        match check_value(&val, &shape, &m, &mut at, &mut Vec::new()) {
                            Ok(()) => disk_ok = true,
                            Err(e) => {
                                fail!("A2", "{} in {}", e, String::from_utf8_lossy(&disk));
                                disk_ok = true;
                            }
                        }
                    }
                }
            }
        }
    } else {
        eval!("A6");
        if wres.is_ok() {
            // the write call failed, serialize said Ok: the bytes on disk must be the whole value
            let whole = match serde_json::from_slice::<serde_json::Value>(&disk) {
                Err(e) => Err(format!("bytes on disk are not JSON ({}): {:?}", e, String::from_utf8_lossy(&disk))),
                Ok(val) => {
                    let mut at = 0;
                    check_value(&val, &shape, &m, &mut at, &mut Vec::new())
                }
            };
            if let Err(e) = whole {
                fail!("A6", "to_writer returned Ok although write call {} failed, and the disk does not hold the value: {}", werr.unwrap_or(0), e);
            }
        }
    }

    // ---- read ------------------------------------------------------------------------------
    let structural = !plan.rfaults.is_empty() || plan.escape_keys || plan.ws != 0 || plan.patch.is_some() || plan.null_field.is_some();
    let mut nulled: Option<String> = None;
    let mut expected = echo.clone();
    let mut patched = false;
    let mut text: Option<Vec<u8>> = None;
    let mut opened: Vec<(SmallPath, Vec<Deliver>)> = Vec::new();
    let mut applied = vec![false; plan.rfaults.len()];
    let mut top_end: Vec<Option<usize>> = Vec::new();
    if !wfaulted && wres.is_ok() && disk_ok {
        if !structural {
            text = Some(disk.clone());
            // identity delivery of every record, for classification
            if let Some(t) = tree.as_ref() {
                let mut recs = Vec::new();
                crate::registry::collect_records(t, &mut Vec::new(), &mut recs);
                for (p, keys) in recs {
                    opened.push((SmallPath::from_slice(&p), (0..keys.len() as u8).map(Deliver::Orig).collect()));
                }
            }
        } else if let Some(t) = tree.as_mut() {
            if let Some(patch) = plan.patch.as_ref() {
                if leaf_paths.len() == m.len() && patch.len() == m.len() {
                    let mut exp = echo.clone();
                    for (i, p) in leaf_paths.iter().enumerate() {
                        if let Some(Node::Num { kind, bits }) = leaf_mut(t, p.as_slice()) {
                            if let Some(b) = crate::node::convert_num(kinds[i], patch[i], *kind) {
                                *bits = b;
                                exp[i] = json_echo(kinds[i], patch[i]);
                            }
                        }
                    }
                    expected = exp;
                    patched = expected != echo;
                }
            }
            if let Some(path) = plan.null_field.as_ref() {
                // judged on its own: only without any other damage to the text
                if plan.rfaults.is_empty() && plan.trunc_at.is_none() && plan.flip.is_none() && plan.r_err_at.is_none() {
                    nulled = crate::oracle::apply_null_field(t, path);
                }
            }
            let unknown_vals: Vec<Node> = plan
                .rfaults
                .iter()
                .map(|f| match f {
                    RFault::Unknown { path, val, .. } => unknown_value_node(*val, node_at(t, path)),
                    _ => Node::Unit,
                })
                .collect();
            let n_top = match skip_wrappers(t) {
                Node::Struct { entries, .. } => entries.len(),
                _ => 0,
            };
            let mut em = Emitter {
                faults: &plan.rfaults,
                unknown_vals: &unknown_vals,
                applied: vec![false; plan.rfaults.len()],
                opened: Vec::new(),
                escape_keys: plan.escape_keys,
                ws: plan.ws,
                out: String::with_capacity(256),
                top_value_end: vec![None; n_top],
            };
            em.node(t, SmallPath::root(), 0);
            opened = em.opened;
            applied = em.applied;
            top_end = em.top_value_end;
            text = Some(em.out.into_bytes());
        }
    }

    if let (Some(mut bytes), Some(t)) = (text, tree.as_ref()) {
        let full_len = bytes.len();
        // byte offset after which every top-level field has been delivered completely
        let all_delivered_at: Option<usize> = if !structural {
            // the last top-level value ends at the last non-blank byte before the final brace
            let mut i = full_len;
            while i > 0 && bytes[i - 1].is_ascii_whitespace() {
                i -= 1;
            }
            if i > 0 && bytes[i - 1] == b'}' {
                i -= 1;
                while i > 0 && bytes[i - 1].is_ascii_whitespace() {
                    i -= 1;
                }
                Some(i)
            } else {
                None
            }
        } else if top_end.iter().all(|x| x.is_some()) && !top_end.is_empty() {
            top_end.iter().map(|x| x.unwrap()).max()
        } else {
            None
        };
        let mut cut: Option<usize> = None;
        if let Some(tr) = plan.trunc_at {
            let tr = tr as usize;
            if tr < bytes.len() {
                bytes.truncate(tr);
                cut = Some(tr);
                out.jstats.trunc += 1;
            }
        }
        let mut flipped = false;
        if let Some((b, bit)) = plan.flip {
            if (b as usize) < bytes.len() {
                bytes[b as usize] ^= 1 << (bit & 7);
                flipped = true;
                out.jstats.flip += 1;
            }
        }
        let mut rstats = (0u32, false, 0u32, 0u32);
        let res: Result<Vec<u64>, String> = ops.read_json(&bytes, plan, &mut rstats);
        out.rsteps = rstats.0.max(1);
        out.read_ok = Some(res.is_ok());
        out.jstats.r_eintr += rstats.2;
        out.jstats.r_short += rstats.3;
        if rstats.1 {
            let at = plan.r_err_at.unwrap_or(0) as usize;
            cut = Some(cut.map(|c| c.min(at)).unwrap_or(at));
            out.jstats.r_ioerr += 1;
        }
        log.bytes(&bytes);
        log.u64(res.is_ok() as u64);
        out.applied = applied.clone();
        if let Some((_, order)) = opened.iter().find(|(p, _)| p.len == 0) {
            out.top_order = order
                .iter()
                .map(|d| match d {
                    Deliver::Orig(i) => *i,
                    Deliver::Unknown(i) => 0x80 | *i,
                })
                .collect();
        }

        if let Some(name) = &nulled {
            eval!("A7");
            out.nulled = true;
            if let Ok(got) = &res {
                let mut s = String::new();
                let mut at = 0;
                shape.render(got, &mut at, &mut s);
                fail!(
                    "A7",
                    "the value of field `{}` is null in {:?} and deserialize returned Ok({}): that component was never in the text",
                    name,
                    String::from_utf8_lossy(&bytes),
                    s
                );
            }
            out.nontrivial = true;
        } else if flipped {
            // A8: silent corruption. The only thing the property lets us demand is that the
            // hand-written Decomposed impl judges the damaged text like the derive mirror does.
            if let Some(mir) = ops.mirror_read(&bytes, plan) {
                let dup_or_array = match serde_json::from_slice::<TopKeys>(&bytes) {
                    Ok(TopKeys(keys)) => {
                        let mut k = keys.clone();
                        k.sort();
                        k.dedup();
                        k.len() != keys.len()
                    }
                    Err(_) => false,
                } || bytes.iter().find(|c| !c.is_ascii_whitespace()) == Some(&b'[');
                if !dup_or_array && cut.is_none() {
                    eval!("A8");
                    let mine = res.as_ref().map(|g| g.clone());
                    match (&mine, &mir) {
                        (Ok(a), Ok(b)) if a == b => {}
                        (Err(_), Err(_)) => {}
                        _ => fail!(
                            "A8",
                            "on damaged text {:?} Decomposed's impl returned {} but its derive(Deserialize)+deny_unknown_fields mirror returned {}",
                            String::from_utf8_lossy(&bytes),
                            match &mine {
                                Ok(a) => format!("Ok({:?})", a),
                                Err(e) => format!("Err({})", e),
                            },
                            match &mir {
                                Ok(a) => format!("Ok({:?})", a),
                                Err(e) => format!("Err({})", e),
                            }
                        ),
                    }
                }
            }
            out.nontrivial = true;
        } else {
            let err_fired = cut.is_some();
            let err_before_all = match (cut, all_delivered_at) {
                (Some(c), Some(a)) => c < a,
                (Some(_), None) => true,
                _ => false,
            };
            let root_is_record = matches!(skip_wrappers(t), Node::Struct { .. });
            // serde's flatten machinery withholds every top-level entry that the type's `fields`
            // list does not name — but the simulator cannot see that list from here, and an injected
            // key may happen to be one the type declares (an alias): nothing is demanded of such runs
            let flatten_blind = plan.reader == JReader::Flatten
                && root_is_record
                && opened.iter().any(|(p, order)| p.len == 0 && order.iter().any(|d| matches!(d, Deliver::Unknown(_))));
            let facts = ReadFacts {
                root: t,
                opened: &opened,
                err_fired,
                err_before_all: err_before_all && root_is_record,
                keyed: true,
                weak_keys: patched && shape.has_wrap(),
                is_dec,
                patched,
            };
            // a bare number cut short can still be a valid, different number: nothing to demand
            if (err_fired && !root_is_record) || flatten_blind {
                out.nontrivial = true;
            } else {
                let any = judge_read(&mut out, &facts, &shape, &res, &expected, &leaf_paths);
                if any || plan.escape_keys {
                    out.nontrivial = true;
                }
            }
        }

        if opts.trace {
            let d = out.detail.get_or_insert_with(RunDetail::default);
            d.read_result = match &res {
                Ok(got) => {
                    let mut s = String::new();
                    let mut at = 0;
                    shape.render(got, &mut at, &mut s);
                    format!("Ok({})", s)
                }
                Err(e) => format!("Err({})", e),
            };
            d.stored = format!("text read: {:?}", String::from_utf8_lossy(&bytes));
        }
        let mut sg = Fnv::default();
        for (p, order) in &opened {
            sg.bytes(p.as_slice());
            for d in order {
                sg.u64(match d {
                    Deliver::Orig(i) => *i as u64,
                    Deliver::Unknown(i) => match &plan.rfaults[*i as usize] {
                        RFault::Unknown { key, .. } => {
                            let mut h = Fnv::default();
                            h.str(key);
                            0x1000 | (h.finish() & 0xfff)
                        }
                        _ => 0x1000,
                    },
                });
            }
        }
        sg.u64(cut.map(|c| c as u64 + 1).unwrap_or(0));
        sg.u64(plan.flip.map(|(b, bit)| (b as u64) << 3 | bit as u64).unwrap_or(u64::MAX));
        sg.u64(plan.reader as u64);
        sg.u64(plan.escape_keys as u64);
        sg.u64(plan.in_place as u64);
        out.sig = sg.finish();
    }

    if opts.trace {
        let d = out.detail.get_or_insert_with(RunDetail::default);
        let mut s = String::new();
        let mut at = 0;
        shape.render(&m, &mut at, &mut s);
        d.value = s;
        d.json_len = disk.len() as u32;
        d.write_result = match &wres {
            Ok(()) => format!("Ok; disk holds {:?}", String::from_utf8_lossy(&disk)),
            Err(e) => format!("Err({}); disk holds {:?}", e, String::from_utf8_lossy(&disk)),
        };
    }

    if plan.retry && (wfaulted || out.nontrivial) {
        eval!("AR");
        let clean = JPlan::base(&plan.ty, plan.gen.clone());
        let JWrite { result: w2, disk: disk2, calls: c2, .. } = ops.write_json(&plan.gen, &clean);
        out.wsteps += c2;
        match w2 {
            Err(e) => fail!("AR", "fault-free retry after a faulted attempt failed to write: {}", e),
            Ok(()) => {
                let mut rs = (0, false, 0, 0);
                match ops.read_json(&disk2, &clean, &mut rs) {
                    Ok(g) => {
                        if g != echo {
                            fail!("AR", "fault-free retry after a faulted attempt read back {:?}, expected {:?}", g, echo);
                        }
                    }
                    Err(e) => fail!("AR", "fault-free retry after a faulted attempt failed to read: {}", e),
                }
            }
        }
    }

    let mut sg = Fnv::default();
    sg.str(&plan.ty);
    sg.u64(0x4A53_4F4E); // "JSON"
    sg.u64(werr.map(|k| k as u64 + 1).unwrap_or(0));
    sg.u64(wres.is_ok() as u64);
    sg.u64(out.sig);
    sg.u64(plan.pretty as u64);
    out.sig = sg.finish();
    if wfaulted {
        out.nontrivial = true;
    }
    if let Some(f) = &out.failure {
        log.str(f.assert_id);
        log.str(&f.observed);
    }
    out.log_hash = log.finish();
    out
}
